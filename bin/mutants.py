"""Realistic one-line changes to coap-lite (DESIGN.md 4.22): each compiles, passes the crate's 49
tests, and breaks a listed property.  (file, old, new): first occurrence replaced unless all=True."""

P = "src/packet.rs"
H = "src/header.rs"
OV = "src/option_value.rs"
RS = "src/response.rs"
RQ = "src/request.rs"
OB = "src/observe.rs"
LF = "src/link_format.rs"
BH = "src/block_handler/mod.rs"
BV = "src/block_handler/block_value.rs"
M02 = "src/impl_coap_message.rs"


def m(name, props, edits, why="", all=False):
    return {"name": name, "props": props, "edits": edits, "why": why, "all": all}


MUTANTS = [
    # ---- C01
    m("c01-enc-delta-le-269", ["C01"], [(P, "                } else if delta < 269 {\n                    byte |= 13 << 4;", "                } else if delta <= 269 {\n                    byte |= 13 << 4;"),
                                         (P, "if delta > 12 && delta < 269 {", "if delta > 12 && delta <= 269 {"),
                                         (P, "} else if delta >= 269 {", "} else if delta > 269 {")], "delta 269 encoded with the 1-byte extension"),
    m("c01-enc-len-lt-12", ["C01"], [(P, "if value.len() <= 12 {\n                    byte |= value.len() as u8;", "if value.len() < 12 {\n                    byte |= value.len() as u8;"),
                                      (P, "if value.len() > 12 && value.len() < 269 {", "if value.len() >= 12 && value.len() < 269 {")], "length 12 encoded with an extension byte... as 13-1"),
    m("c01-set-version-mask", ["C01", "C05"], [(H, "let type_tkl = 0x3F & self.ver_type_tkl;", "let type_tkl = 0x1F & self.ver_type_tkl;")], "set_version clears a type bit"),
    # ---- C02 / C03
    m("c02-dec-drops-empty-values", ["C02"], [(P, "                    options\n                        .entry(options_number)\n                        .or_default()\n                        .push_back(options_value);", "                    if !options_value.is_empty() {\n                        options\n                            .entry(options_number)\n                            .or_default()\n                            .push_back(options_value);\n                    }")], "decoder drops zero-length option values"),
    m("c03-trunc-ext16", ["C03"], [(P, "                            if idx + 1 >= buf.len() {\n                                return Err(MessageError::InvalidOptionLength);\n                            }\n\n                            delta", "                            if idx + 1 > buf.len() {\n                                return Err(MessageError::InvalidOptionLength);\n                            }\n\n                            delta")], "panic on a truncated 2-byte delta extension"),
    m("c03-tkl-check-removed", ["C03"], [(P, "                if token_length > 8 {\n                    return Err(MessageError::InvalidTokenLength);\n                }\n", "")], "token length 9-15 accepted"),
    m("c03-len-nibble15", ["C03"], [(P, "                        15 => {\n                            return Err(MessageError::InvalidOptionLength);\n                        }\n", "")], "length nibble 15 accepted as length 15"),
    # ---- C04
    m("c04-limit-ge", ["C04"], [(P, "if limit.is_some() && buf_length > limit.unwrap() {", "if limit.is_some() && buf_length >= limit.unwrap() {")], "message of exactly the limit refused"),
    m("c04-limit-without-marker", ["C04"], [(P, "            buf_length += 1 + self.payload.len();", "            buf_length += self.payload.len();")], "marker byte not counted"),
    # ---- C05
    m("c05-size1-size2-swapped", ["C05"], [(P, "            60 => CoapOption::Size1,\n            28 => CoapOption::Size2,", "            28 => CoapOption::Size1,\n            60 => CoapOption::Size2,"),
                                           (P, "            CoapOption::Size1 => 60,\n            CoapOption::Size2 => 28,", "            CoapOption::Size1 => 28,\n            CoapOption::Size2 => 60,")], "Size1/Size2 numbers swapped consistently"),
    m("c05-lwm2m-swapped", ["C05"], [(P, "            11542 => Ok(ContentFormat::ApplicationVndOmaLwm2mTlv),\n            11543 => Ok(ContentFormat::ApplicationVndOmaLwm2mJson),", "            11543 => Ok(ContentFormat::ApplicationVndOmaLwm2mTlv),\n            11542 => Ok(ContentFormat::ApplicationVndOmaLwm2mJson),"),
                                     (P, "            ContentFormat::ApplicationVndOmaLwm2mTlv => 11542,\n            ContentFormat::ApplicationVndOmaLwm2mJson => 11543,", "            ContentFormat::ApplicationVndOmaLwm2mTlv => 11543,\n            ContentFormat::ApplicationVndOmaLwm2mJson => 11542,")], "two content formats swapped consistently"),
    m("c05-set-code-detail-unchecked", ["C05"], [(H, "        assert_eq!(0xE0 & detail_code, 0);\n", "")], "set_code accepts a detail above 31 and stores a code of another class (text forms, MC_CodeText)"),
    m("c05-88-89-swapped", ["C05"], [(H, "            0x89 => MessageClass::Response(ResponseType::Conflict),", "            0x88 => MessageClass::Response(ResponseType::Conflict),"),
                                     (H, "            0x88 => {\n                MessageClass::Response(ResponseType::RequestEntityIncomplete)", "            0x89 => {\n                MessageClass::Response(ResponseType::RequestEntityIncomplete)"),
                                     (H, "            MessageClass::Response(ResponseType::Conflict) => 0x89,", "            MessageClass::Response(ResponseType::Conflict) => 0x88,"),
                                     (H, "            MessageClass::Response(ResponseType::RequestEntityIncomplete) => {\n                0x88", "            MessageClass::Response(ResponseType::RequestEntityIncomplete) => {\n                0x89")], "4.08 / 4.09 swapped consistently"),
    # ---- C06
    # ---- C07
    m("c07-non-answered-with-ack", ["C07"], [(RS, "MessageType::NonConfirmable => MessageType::NonConfirmable,", "MessageType::NonConfirmable => MessageType::Acknowledgement,")], "NON request answered with ACK"),
    m("c07-token-not-copied", ["C07"], [(RS, "        packet.set_token(request.get_token().to_vec());\n", "        if request.get_token().len() < 8 {\n            packet.set_token(request.get_token().to_vec());\n        }\n")], "8-byte tokens not copied"),
    m("c07-payload-echoed", ["C07"], [(RS, "        packet.set_token(request.get_token().to_vec());\n", "        packet.set_token(request.get_token().to_vec());\n        if request.header.get_version() != 1 {\n            packet.payload = request.payload.clone();\n        }\n")], "request body echoed for version != 1"),
    # ---- C08
    m("c08-more-flag-off-by-one", ["C08"], [(BH, "        let has_more_chunks = chunks.next().is_some();", "        let has_more_chunks = chunks.next().is_some()\n            || cached_payload.len() % request_block_size == 0;")], "more flag set on the last block when the body is a multiple of the block size"),
    m("c08-options-not-cloned", ["C08"], [(BH, "        for (&option, value) in src.options() {\n            dst.set_option(CoapOption::from(option), value.clone());\n        }", "        for (&option, value) in src.options() {\n            if option != 4 {\n                dst.set_option(CoapOption::from(option), value.clone());\n            }\n        }")], "ETag not repeated in follow-up blocks"),
    # ---- C09
    m("c09-retransmit-inserts", ["C09"], [(BH, "                    payload_offset..payload_offset + request_block1.size(),", "                    payload_offset\n                        ..if payload_offset < cached_payload.len()\n                            && request_block1.more\n                        {\n                            payload_offset\n                        } else {\n                            payload_offset + request_block1.size()\n                        },")], "a retransmitted non-final block is inserted instead of replacing the buffered one"),
    m("c09-413-arm-removed", ["C09"], [(BH, "                response.message.header.code = MessageClass::Response(\n                    ResponseType::RequestEntityTooLarge,\n                );\n                Ok(true)", "                response.message.header.code = MessageClass::Response(\n                    ResponseType::RequestEntityTooLarge,\n                );\n                Ok(request.message.payload.len() < 1000)")], "large requests without Block1 passed to the application"),
    # ---- C10
    m("c10-block-options-zero", ["C10"], [(BH, "const BLOCK_OPTIONS_MAX_LENGTH: usize = 12;", "const BLOCK_OPTIONS_MAX_LENGTH: usize = 0;")], "no room reserved for the block options"),
    m("c10-min-max", ["C10"], [(BH, "                    min(request_block.size(), max_block_size);", "                    core::cmp::max(request_block.size(), max_block_size).min(1024);")], "larger block than the client asked for"),
    # ---- C11
    m("c11-unchecked-sub", ["C11"], [(BH, "        let max_block_size = max_total_message_size\n            .checked_sub(max_non_payload_size)\n            .ok_or_else(|| {", "        let max_block_size = Some(max_total_message_size - max_non_payload_size)\n            .ok_or_else(|| {")], "subtraction overflow for tiny budgets"),
    m("c11-reserve-limit-removed", ["C11"], [(BH, "        if extend_len > maximum_reserve_len {", "        if extend_len > maximum_reserve_len && dst.is_empty() {")], "16 KiB jump limit only for the first block"),
    m("c11-splice-inclusive-end", ["C11"], [(BH, "        Bound::Included(&included) => included + 1,", "        Bound::Included(&included) => included,")], "extending_splice with an inclusive range grows the buffer one byte short (public function; the handler passes exclusive ranges only)"),
    # ---- C12
    m("c12-key-without-requester", ["C12"], [(BH, "            requester: request.source.clone(),", "            requester: None,")], "cache key ignores the endpoint"),
    m("c12-key-joined-path", ["C12"], [(BH, "            path: request.get_path_as_vec().unwrap_or_default(),", "            path: vec![request.get_path()],")], "cache key built from the joined path"),
    m("c12-key-without-method", ["C12"], [(BH, "            request_type_ord: u8::from(MessageClass::Request(\n                *request.get_method(),\n            )),", "            request_type_ord: 0,")], "cache key ignores the method"),
    # ---- C13
    m("c13-szx-mask", ["C13"], [(BV, "| u32::from(block_value.size_exponent & 0x7);", "| u32::from(block_value.size_exponent & 0x3);")], "size exponents 4..7 encoded modulo 4"),
    m("c13-size-cap", ["C13"], [(BV, "        1 << (self.size_exponent + 4)", "        1 << (self.size_exponent.min(6) + 4)")], "size exponent 7 reported as 1024"),
    m("c13-num-high-bits", ["C13"], [(BV, "        let scalar = u32::from(block_value.num) << 4", "        let scalar = u32::from(block_value.num & 0x0FFF) << 4")], "block numbers >= 4096 lose their high bits (the original defect, differently)"),
    m("c13-szx-limit", ["C13"], [(BV, "if size_exponent > 0x7 {", "if size_exponent > 0x8 {")], "size 4096 accepted"),
    # ---- C14 / C15
    m("c14-deregister-endpoint-only", ["C14"], [(OB, "                x.endpoint == *observer_endpoint && x.token == *token", "                x.endpoint == *observer_endpoint")], "deregistration ignores the token"),
    m("c14-changed-creates", ["C14"], [(OB, "            .entry(resource.to_string())\n            .and_modify(|resource| {", "            .entry(resource.to_string())\n            .or_insert(Resource {\n                observers: Vec::new(),\n                sequence: 0,\n            });\n        self.resources\n            .entry(resource.to_string())\n            .and_modify(|resource| {")], "a round on an unobserved path creates a record"),
    m("c15-non-counted", ["C15"], [(OB, "                    if is_confirmable {\n                        observer.unacknowledged_messages += 1;", "                    if is_confirmable || message_id == 0xFFFF {\n                        observer.unacknowledged_messages += 1;")], "a NON round with a particular id counts"),
    m("c15-ack-ignores-endpoint", ["C15"], [(OB, "                    return x.endpoint == *observer_endpoint\n                        && observe_msg_id == message_id;", "                    return observe_msg_id == message_id;")], "acknowledgement from another endpoint resets the count"),
    # ---- C16 / C17 / C18
    m("c16-backslash-not-escaped", ["C16"], [(LF, "            if (c == '\"' || c == '\\\\') && self.0.error.is_none() {", "            if c == '\"' && self.0.error.is_none() {")], "backslash written without escape"),
    m("c17-attr-split-in-quotes", ["C17", "C16"], [(LF, "                Some(ATTR_SEPARATOR_CHAR) | None => {\n                    break;\n                }\n                Some('\"') => {\n                    // Handle quotes.\n                    loop {\n                        match iter.next() {\n                            Some('\"') | None => {\n                                break;\n                            }\n                            Some(QUOTE_ESCAPE_CHAR) => {\n                                iter.next();\n                            }", "                Some(ATTR_SEPARATOR_CHAR) | None => {\n                    break;\n                }\n                Some('\"') => {\n                    // Handle quotes.\n                    loop {\n                        match iter.next() {\n                            Some('\"') | None => {\n                                break;\n                            }\n                            Some(QUOTE_ESCAPE_CHAR) => {\n                            }")], "escaped quote ends the quoted string in the attribute scanner"),
    m("c18-guard-removed", ["C18"], [(LF, "        if self.0.error.is_none() {\n            self.0.error = self.0.write.write_char('=').err();\n        }", "        self.0.error = self.0.write.write_char('=').err();")], "'=' written although an earlier write failed"),
    m("c18-finish-ok", ["C18"], [(LF, "    pub fn finish(self) -> Result<(), core::fmt::Error> {\n        if let Some(e) = self.error {\n            Err(e)", "    pub fn finish(self) -> Result<(), core::fmt::Error> {\n        if let (Some(e), true) = (self.error, self.is_first) {\n            Err(e)")], "final result reports success after a failure"),
    # ---- C19
    m("c19-trait-iter-skips", ["C19"], [(M02, "            let (number, values) = self.raw_iter.next()?;\n            self.head = Some((*number, values.iter()));", "            let (number, values) = self.raw_iter.next()?;\n            let mut it = values.iter();\n            if values.len() > 2 {\n                it.next();\n            }\n            self.head = Some((*number, it));")], "0.2 trait option iterator skips a value of long lists"),
    # ---- C20
    m("c20-expiry-ignored", ["C20"], [(BH, "            states: LruCache::with_expiry_duration(\n                config.cache_expiry_duration,\n            ),", "            states: LruCache::with_expiry_duration(\n                config.cache_expiry_duration.max(Duration::from_secs(1)),\n            ),")], "expiry shorter than a second ignored"),
    m("c20-entry-insert-fresh", ["C20", "C08"], [(BH, "    pub fn intercept_response(\n        &mut self,\n        request: &mut CoapRequest<Endpoint>,\n    ) -> Result<bool, HandlingError> {\n        let state = self\n            .states\n            .entry(request.deref().into())\n            .or_insert(BlockState::default());", "    pub fn intercept_response(\n        &mut self,\n        request: &mut CoapRequest<Endpoint>,\n    ) -> Result<bool, HandlingError> {\n        if self.states.len() > 40 {\n            self.states.clear();\n        }\n        let state = self\n            .states\n            .entry(request.deref().into())\n            .or_insert(BlockState::default());")], "cache flushed when more than 40 keys are live"),
    # ---- replacements for mutants the crate's own tests already catch
    m("c02-dec-dedupes", ["C02"], [(P, "                    options\n                        .entry(options_number)\n                        .or_default()\n                        .push_back(options_value);", "                    let list = options.entry(options_number).or_default();\n                    if list.back() != Some(&options_value) {\n                        list.push_back(options_value);\n                    }")], "decoder drops a repeated identical option value"),
    m("c05-content-after-badrequest", ["C05"], [(H, "    Changed,\n    Content,\n    Continue,\n\n    // 400 Codes\n    BadRequest,", "    Changed,\n    Continue,\n\n    // 400 Codes\n    BadRequest,\n    Content,")], "variant order makes 2.05 Content an error"),
    m("c06-256-fast-path", ["C06"], [(OV, "    } else if value_as_u64 < 256 {", "    } else if value_as_u64 <= 256 {")], "256 encoded as one zero byte"),
    m("c06-decode-leading-zero", ["C06"], [(OV, "    if encoded.len() > value_size {", "    if encoded.len() > value_size && encoded[0] != 0 {")], "over-long values with a leading zero accepted"),
    m("c14-register-keeps-count", ["C14"], [(OB, "            resource.observers[position] = observer;", "            resource.observers[position].token = observer.token;")], "re-registration keeps the unacknowledged count and pending id"),
    m("c19-set-path-root", ["C19"], [(RQ, "            if i == 0 && s.is_empty() {", "            if i == 0 && s.is_empty() && path.len() > 1 {")], "set_path(\"/\") stores two empty segments"),
    m("c19-fetch-ipatch-swapped", ["C19"], [(RQ, "            MessageClass::Request(Method::Fetch) => &Method::Fetch,", "            MessageClass::Request(Method::Fetch) => &Method::IPatch,"), (RQ, "            MessageClass::Request(Method::IPatch) => &Method::IPatch,", "            MessageClass::Request(Method::IPatch) => &Method::Fetch,")], "get_method swaps FETCH and iPATCH"),
]
