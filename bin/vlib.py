"""Runner library: build the harness from /repo's working tree, run TLC (model checking,
vector generation, trace validation), run the harness (replay / record), apply the
known-findings file, write evidence, set the exit code.

Exit codes: 0 property held on everything explored (KNOWN-FINDING lines allowed),
1 VIOLATION (always with a replay file), 2 tool trouble (never a VIOLATION line)."""
import fcntl
import json
import os
import re
import shutil
import subprocess
import sys
import time

ROOT = os.path.dirname(os.path.dirname(os.path.abspath(__file__)))
SPEC = os.path.join(ROOT, "spec")
# selftest runs against a scratch copy of the repository: it points these elsewhere
HARNESS = os.environ.get("CLV_HARNESS_DIR", os.path.join(ROOT, "harness"))
OUTDIR = os.environ.get("CLV_OUT_DIR", ROOT)
# a trace run holds the deserialised trace (about 25 bytes per byte of NDJSON, chunks of 64 MB); without a cap
# each JVM may grow to a quarter of the machine's memory before it collects, and up to 16 used to run at once
JAVA_TRACE = "-Xss1g -Xmx6g -Dtlc2.tool.queue.IStateQueue=StateDeque"
_TRACE_SLOTS = __import__("threading").BoundedSemaphore(6)


# negative: killed by that signal; 3: the harness's watchdog saw one call into the code under test not
# return for CLV_HANG_SECS seconds
CRASH_SIGNALS = {-4: "SIGILL", -6: "SIGABRT", -7: "SIGBUS", -11: "SIGSEGV", 3: "HANG (a call did not return within 20 s)",
                 4: "PANIC (raised by the code under test while the harness prepared an input through the crate's API)"}


class CodeCrash(Exception):
    """the code under test killed the harness process; the violation is already recorded"""


class ToolError(Exception):
    pass


class Ctx:
    def __init__(self, pid, tier, seed):
        self.pid = pid
        self.tier = tier
        self.seed = seed
        self.t0 = time.time()
        self.work = os.path.join(OUTDIR, "work", "%s.%d" % (pid, os.getpid()))
        shutil.rmtree(self.work, ignore_errors=True)
        os.makedirs(self.work)
        self.states = 0
        self.transitions = 0
        self.traces = 0          # episodes validated against the spec + behaviours replayed into the code
        self.events = 0
        self.vectors = 0
        self.samples = []
        self.steps = []
        self.violations = []     # dicts: prop, sig, what, case
        self.drift = 0
        self.assumptions = []
        self.exhaustive = False
        self.extra = {}
        self._bins = {}
        self._n = 0

    @property
    def thorough(self):
        return self.tier == "thorough"

    def path(self, name):
        return os.path.join(self.work, name)

    def note(self, step, **kw):
        d = {"step": step}
        d.update(kw)
        self.steps.append(d)
        print("[%s %6.1fs] %s %s" % (self.pid, time.time() - self.t0, step,
                                      " ".join("%s=%s" % (k, v) for k, v in kw.items())), flush=True)

    def sample(self, s):
        if len(self.samples) < 6:
            txt = json.dumps(s)
            if len(txt) > 1500:
                s = {"truncated": txt[:1500]}
            self.samples.append(s)

    # ---------------------------------------------------------------- build
    def build(self, profile="dev", features="default"):
        """Build the harness against /repo's current working tree (hooks on)."""
        key = (profile, features)
        if key in self._bins:
            return self._bins[key]
        cmd = ["cargo", "build", "--offline", "--quiet"]
        if profile == "release":
            cmd.append("--release")
        if features == "no-default":
            cmd += ["--no-default-features"]
        elif features == "udp":
            cmd += ["--features", "udp"]
        env = dict(os.environ)
        env["CARGO_NET_OFFLINE"] = "true"
        t = time.time()
        lock = open(os.path.join(HARNESS, ".build.lock"), "w")
        fcntl.flock(lock, fcntl.LOCK_EX)
        try:
            r = subprocess.run(cmd, cwd=HARNESS, env=env, stdout=subprocess.PIPE, stderr=subprocess.STDOUT, text=True)
            if r.returncode != 0:
                raise ToolError("cargo build failed (%s %s):\n%s" % (profile, features, r.stdout[-3000:]))
            src = os.path.join(HARNESS, "target", "release" if profile == "release" else "debug", "clv")
            dst = self.path("clv-%s-%s" % (profile, features))
            shutil.copy2(src, dst)
        finally:
            fcntl.flock(lock, fcntl.LOCK_UN)
            lock.close()
        self.note("build", profile=profile, features=features, s=round(time.time() - t, 1))
        self._bins[key] = dst
        return dst

    def build_asan(self):
        """Harness built with AddressSanitizer on the nightly toolchain (extra observation channel
        for the memory-safety clause of C04; thorough tier)."""
        if "asan" in self._bins:
            return self._bins["asan"]
        env = dict(os.environ)
        env["CARGO_NET_OFFLINE"] = "true"
        env["RUSTFLAGS"] = "--cfg coap_lite_verif --check-cfg cfg(coap_lite_verif) -Zsanitizer=address"
        t = time.time()
        lock = open(os.path.join(HARNESS, ".build.lock"), "w")
        fcntl.flock(lock, fcntl.LOCK_EX)
        try:
            r = subprocess.run(["cargo", "+nightly", "build", "--offline", "--quiet", "--target", "x86_64-unknown-linux-gnu",
                                "--target-dir", "target/asan"], cwd=HARNESS, env=env, stdout=subprocess.PIPE,
                               stderr=subprocess.STDOUT, text=True)
            if r.returncode != 0:
                self.note("asan-build-unavailable", detail=r.stdout[-200:].replace("\n", " "))
                self._bins["asan"] = None
                return None
            dst = self.path("clv-asan")
            shutil.copy2(os.path.join(HARNESS, "target", "asan", "x86_64-unknown-linux-gnu", "debug", "clv"), dst)
        finally:
            fcntl.flock(lock, fcntl.LOCK_UN)
            lock.close()
        self.note("build", profile="asan", s=round(time.time() - t, 1))
        self._bins["asan"] = dst
        return dst

    def run_asan(self, binary, driver, prop):
        """Run a recorder under ASan: a sanitizer abort is an outcome no specification action allows."""
        out = self.path("asan-%s.ndjson" % driver)
        r = subprocess.run([binary, "rec", driver, "--seed", str(self.seed), "--tier", self.tier, "--out", out],
                           stdout=subprocess.PIPE, stderr=subprocess.PIPE, text=True,
                           env=dict(os.environ, ASAN_OPTIONS="detect_leaks=0:abort_on_error=0"))
        if "AddressSanitizer" in r.stderr or r.returncode not in (0,):
            if "AddressSanitizer" in r.stderr:
                self.violations.append({"prop": prop, "sig": "", "what": "AddressSanitizer report while serialising",
                                        "kind": "asan", "component": driver, "case": r.stderr[:3000]})
            else:
                raise ToolError("ASan run of %s failed without a sanitizer report: %s" % (driver, r.stderr[-500:]))
        self.note("asan " + driver, rc=r.returncode)
        try:
            os.remove(out)
        except OSError:
            pass

    # ---------------------------------------------------------------- harness
    def _crashed(self, binary, args, rc, stderr, timeout):
        """The harness process was killed by a signal while it ran the code under test (std's
        unsafe-precondition checks abort, a wild write trips the allocator, ...).  That is an outcome no
        specification action allows: re-run in breadcrumb mode to find the case, report it as a
        violation of the property being checked.  Not reproduced -> tool error (never a false alarm)."""
        crumb = self.path("breadcrumb.%d" % len(self.steps))
        r2 = subprocess.run([binary] + [str(a) for a in args], stdout=subprocess.PIPE, stderr=subprocess.PIPE, text=True,
                            timeout=timeout * 3, env=dict(os.environ, CLV_BREADCRUMB=crumb))
        if r2.returncode != rc:
            raise ToolError("harness %s died with %s once and exit %d on the re-run: %s" % (
                " ".join(map(str, args)), CRASH_SIGNALS[rc], r2.returncode, stderr[-1000:]))
        case = {"signal": CRASH_SIGNALS[rc], "harness_args": [str(a) for a in args if not str(a).startswith(self.work)],
                "stderr": r2.stderr[-1500:]}
        if os.path.exists(crumb):
            case["vector_being_evaluated"] = open(crumb, errors="replace").read()[:20000]
        a = [str(x) for x in args]
        if "--out" in a and a[0] == "rec" and os.path.exists(a[a.index("--out") + 1]):
            lines = open(a[a.index("--out") + 1], errors="replace").read().splitlines()
            case["events_recorded_before_the_call_that_died"] = len(lines)
            case["last_events"] = [l[:3000] for l in lines[-12:]]
        self.violations.append({"prop": self.pid, "sig": "", "kind": "crash", "component": " ".join(a[:2]), "case": case,
                                "what": ("a call into the code under test did not return: %s" if rc == 3 else "%s" if rc == 4 else "the process was killed by %s inside the code under test") % CRASH_SIGNALS[rc]})
        raise CodeCrash("%s in harness %s" % (CRASH_SIGNALS[rc], " ".join(a[:2])))

    def harness(self, binary, *args, timeout=1800):
        t = time.time()
        r = subprocess.run([binary] + [str(a) for a in args], stdout=subprocess.PIPE, stderr=subprocess.PIPE,
                           text=True, timeout=timeout)
        if r.returncode in CRASH_SIGNALS:
            self._crashed(binary, args, r.returncode, r.stderr, timeout)
        if r.returncode != 0:
            raise ToolError("harness %s failed (%d): %s" % (" ".join(map(str, args)), r.returncode, r.stderr[-2000:]))
        out = r.stdout.strip().splitlines()
        info = json.loads(out[-1]) if out and out[-1].startswith("{") else {}
        self.note("harness " + " ".join(str(a) for a in args[:2]), s=round(time.time() - t, 1), **{k: v for k, v in info.items() if isinstance(v, (int, str))})
        return info

    def record(self, binary, driver, name=None, **kw):
        out = self.path((name or driver) + ".ndjson")
        args = ["rec", driver, "--seed", self.seed, "--tier", self.tier, "--out", out]
        for k, v in kw.items():
            args += ["--" + k, v]
        info = self.harness(binary, *args)
        self.events += int(info.get("events", 0))
        return out, info

    def replay(self, binary, component, vectors, props, label=None, **kw):
        """spec -> impl: run TLC-generated vectors / behaviours through the real code."""
        rep = self.path("replay-%s.json" % (label or component))
        args = ["replay", component, "--in", vectors, "--out", rep]
        for k, v in kw.items():
            args += ["--" + k, v]
        self.harness(binary, *args)
        r = json.load(open(rep))
        self.vectors += r["evaluated"]
        self.traces += r["evaluated"]
        self.drift += r.get("drift", 0)
        for s in r.get("samples", [])[:2]:
            self.sample({"replayed": s})
        self.note("replayed " + (label or component), evaluated=r["evaluated"], mismatches=len(r["mismatches"]),
                  drift=r.get("drift", 0), counts=json.dumps(r.get("counts", {}))[:300])
        for m in r["mismatches"]:
            if m["prop"] in props:
                self.violations.append({"prop": m["prop"], "sig": m.get("sig", ""), "what": m["what"],
                                        "kind": "vector", "component": component, "case": m["case"]})
        return r

    # ---------------------------------------------------------------- TLC
    def _tlc(self, module, cfg, env, workers, timeout, java_opts=None, heap=None, extra=()):
        self._n += 1
        md = self.path("md-%s-%d" % (module, self._n))
        e = dict(os.environ)
        e.update({k: str(v) for k, v in env.items()})
        e["JAVA_TOOL_OPTIONS"] = java_opts or "-Xss512m"
        cmd = ["timeout", str(timeout), "tlc", "-workers", str(workers), "-metadir", md, "-cleanup",
               "-noGenerateSpecTE", "-config", os.path.join(SPEC, cfg)]
        cmd += list(extra)
        cmd.append(os.path.join(SPEC, module + ".tla"))
        t = time.time()
        r = subprocess.run(cmd, cwd=self.work, env=e, stdout=subprocess.PIPE, stderr=subprocess.STDOUT, text=True)
        shutil.rmtree(md, ignore_errors=True)
        out = r.stdout
        if r.returncode == 124:
            raise ToolError("TLC timed out after %ss on %s" % (timeout, module))
        m = re.search(r"(\d+) states generated, (\d+) distinct states found", out)
        res = {"rc": r.returncode, "out": out, "s": round(time.time() - t, 1),
               "generated": int(m.group(1)) if m else 0, "distinct": int(m.group(2)) if m else 0}
        return res

    def apalache(self, module, init, inv, length, expect_violation=False, timeout=1800):
        """Symbolic check with Apalache (bounded data, unbounded history via an inductive invariant).
        expect_violation=True is a vacuity guard: the claim MUST be refuted.  Any other outcome than the
        expected one is a defect of the specification (exit 2), not of the code."""
        od = self.path("apalache-%d" % self._n)
        self._n += 1
        cmd = ["timeout", str(timeout), "apalache-mc", "check", "--out-dir=" + od, "--init=" + init, "--inv=" + inv,
               "--length=%d" % length, os.path.join(SPEC, module + ".tla")]
        t = time.time()
        r = subprocess.run(cmd, cwd=self.work, stdout=subprocess.PIPE, stderr=subprocess.STDOUT, text=True)
        shutil.rmtree(od, ignore_errors=True)
        if r.returncode == 124:
            raise ToolError("Apalache timed out after %ss on %s %s" % (timeout, module, inv))
        m = re.search(r"The outcome is: (\w+)", r.stdout)
        outcome = m.group(1) if m else "none"
        want = "Error" if expect_violation else "NoError"
        if outcome != want:
            raise ToolError("Apalache %s --init=%s --inv=%s --length=%d: outcome %s, expected %s\n%s" % (
                module, init, inv, length, outcome, want, r.stdout[-1500:]))
        self.note("apalache " + module, init=init, inv=inv, length=length, outcome=outcome, s=round(time.time() - t, 1))
        self.extra.setdefault("apalache", []).append({"module": module, "init": init, "inv": inv, "length": length, "outcome": outcome})

    def model_check(self, module, cfg=None, env=None, workers=8, timeout=900, expect_states=None, extra=(), allow_never=(), coverage=False):
        """Check the bounded model.  A failure here is a defect of the specification (exit 2),
        not of the code."""
        # -coverage gives per-action counts (vacuity guard) but slows large operator-heavy models 10x;
        # those are guarded by expect_states and by the number of emitted scripts instead
        res = self._tlc(module, cfg or module + ".cfg", env or {}, workers, timeout,
                        extra=(("-coverage", "1") if coverage else ()) + tuple(extra))
        out = res["out"]
        if res["rc"] != 0 or "No error has been found" not in out:
            tail = "\n".join(l for l in out.splitlines() if not l.startswith("Progress"))[-3000:]
            raise ToolError("model checking %s did not succeed (rc=%d):\n%s" % (module, res["rc"], tail))
        if res["distinct"] == 0:
            raise ToolError("model %s explored no state" % module)
        if expect_states is not None and res["distinct"] < expect_states:
            raise ToolError("model %s explored %d states, expected at least %d (vacuity guard)" % (module, res["distinct"], expect_states))
        # vacuity: every action of the next-state relation must have been taken
        never = []
        for mm in re.finditer(r"<(\w+) line \d+, col \d+ to line \d+, col \d+ of module (\w+)>: (\d+):(\d+)", out):
            name, mod, distinct, total = mm.group(1), mm.group(2), int(mm.group(3)), int(mm.group(4))
            if total == 0 and name not in ("Init",) and name not in allow_never:
                never.append(name)
        if never:
            raise ToolError("model %s: actions never taken: %s (vacuity guard)" % (module, never))
        self.states += res["distinct"]
        self.transitions += res["generated"]
        self.note("model-check " + module, distinct=res["distinct"], generated=res["generated"], s=res["s"],
                  **{k: v for k, v in (env or {}).items() if k not in ("OUT",)})
        return res

    def validate(self, module, trace, props, cfg=None, timeout=1200, label=None, heap=None):
        """impl -> spec: check a recorded trace against the trace specification.  Large traces are
        split at episode boundaries ("reset" events) into chunks validated by parallel TLC runs."""
        # (TLC holds the whole deserialised trace in memory, roughly 25 bytes per byte of NDJSON)
        limit = 64 * 1024 * 1024
        # events that carry no state from one to the next may start a chunk just like a "reset"
        stateless = ('"op":"from_bytes"', '"op":"hdr_ser"', '"op":"uint_enc"', '"op":"uint_dec"', '"op":"str_dec"', '"op":"parse"', '"op":"roundtrip"', '"op":"fault"')
        if os.path.getsize(trace) > limit:
            chunks = []
            out = None
            size = 0
            with open(trace) as f:
                for line in f:
                    if out is None or (size > limit and ('"op":"reset"' in line[:60] or any(k in line for k in stateless))):
                        if out:
                            out.close()
                        cp = "%s.chunk%d" % (trace, len(chunks))
                        chunks.append(cp)
                        out = open(cp, "w")
                        size = 0
                    out.write(line)
                    size += len(line)
            if out:
                out.close()
            self.note("split " + (label or module), chunks=len(chunks))
            from concurrent.futures import ThreadPoolExecutor
            with ThreadPoolExecutor(max_workers=4) as ex:
                futs = [ex.submit(self._validate_one, module, c, props, cfg, timeout, "%s.%d" % (label or module, i)) for i, c in enumerate(chunks)]
                res = [f.result() for f in futs]
            for c in chunks:
                try:
                    os.remove(c)
                except OSError:
                    pass
            return res[0] if res else None
        return self._validate_one(module, trace, props, cfg, timeout, label)

    def _validate_one(self, module, trace, props, cfg=None, timeout=1200, label=None):
        self._n += 1
        result = self.path("result-%s-%d.json" % (label or module, self._n))
        env = {"TRACE": trace, "RESULT": result}
        with _TRACE_SLOTS:
            res = self._tlc(module, cfg or module + ".cfg", env, 1, timeout, java_opts=JAVA_TRACE)
        out = res["out"]
        if res["rc"] != 0 or "No error has been found" not in out or not os.path.exists(result):
            tail = "\n".join(l for l in out.splitlines() if not l.startswith("Progress"))[-3000:]
            raise ToolError("trace validation %s on %s did not complete (rc=%d):\n%s" % (module, trace, res["rc"], tail))
        r = json.load(open(result))
        self.states += res["distinct"]
        self.transitions += res["generated"]
        extra = r.get("extra", {}) or {}
        episodes = extra.get("episodes", r["n"]) if isinstance(extra, dict) else r["n"]
        self.traces += int(episodes)
        if isinstance(extra, dict):
            self.drift += int(extra.get("drift", 0) or 0)
        self.note("validated " + (label or module), events=r["n"], episodes=episodes, rejected=len(r["bad"]),
                  s=res["s"], extra=json.dumps(extra)[:300])
        if isinstance(extra, dict) and isinstance(extra.get("known"), dict):
            self.extra.setdefault("known_finding_occurrences", {})
            k = extra["known"]
            self.extra["known_finding_occurrences"][k["sig"]] = self.extra["known_finding_occurrences"].get(k["sig"], 0) + int(k["n"])
        lines = None
        for b in r["bad"]:
            if lines is None:
                lines = open(trace).read().split("\n")
            ps = [p for p in b["props"] if p in props]
            i = int(b["i"])
            # the episode: from the last reset up to the rejected event
            j = i
            while j > 1 and json.loads(lines[j - 1]).get("op") != "reset" and i - j < 200:
                j -= 1
            episode = [json.loads(x) for x in lines[j - 1:i]]
            for p in ps:
                self.violations.append({"prop": p, "sig": b.get("sig", ""), "what": b.get("why", ""),
                                        "kind": "trace", "component": module, "index": i,
                                        "expected": b.get("exp", None), "case": episode})
        if lines is None and r["n"] > 0:
            with open(trace) as f:
                first = [json.loads(next(f)) for _ in range(min(2, r["n"]))]
            self.sample({"validated_events": first})
        return r

    def validate_many(self, jobs, timeout=2400, workers=4):
        """validate several traces concurrently (each TLC trace run is single-threaded);
        jobs: list of (module, trace, props, label)"""
        from concurrent.futures import ThreadPoolExecutor
        with ThreadPoolExecutor(max_workers=workers) as ex:
            futs = [ex.submit(self.validate, m, t, p, None, timeout, l) for (m, t, p, l) in jobs]
            return [f.result() for f in futs]

    # ---------------------------------------------------------------- finish
    def finish(self, level="model_checking", rule="", trusted=None):
        kf_path = os.path.join(ROOT, "known_findings.json")
        known = json.load(open(kf_path)) if os.path.exists(kf_path) else []
        open_kf = [k for k in known if k.get("status") == "open" and k["property"] == self.pid]
        mine = [v for v in self.violations if v["prop"] == self.pid]
        real, hits = [], {}
        for v in mine:
            k = next((k for k in open_kf if v.get("sig") and v["sig"] == k["signature"]), None)
            if k:
                hits.setdefault(k["id"], [k, 0])
                hits[k["id"]][1] += 1
            else:
                real.append(v)
        for kid, (k, n) in hits.items():
            total = self.extra.get("known_finding_occurrences", {}).get(k["signature"], n)
            print("KNOWN-FINDING: property=%s %s: %s (%d occurrences in this run)" % (self.pid, kid, k["what"], total))
        rc = 0
        if real:
            rdir = os.path.join(OUTDIR, "replays")
            os.makedirs(rdir, exist_ok=True)
            rp = os.path.join(rdir, "%s.json" % self.pid)
            json.dump({"property": self.pid, "tier": self.tier, "seed": self.seed, "count": len(real),
                       "violations": real[:20]}, open(rp, "w"), indent=1)
            v = real[0]
            print("first violation: %s: %s" % (v["what"], json.dumps(v["case"])[:600]))
            print("VIOLATION property=%s replay=%s" % (self.pid, rp))
            rc = 1
        wall = round(time.time() - self.t0, 2)
        cov = {
            "states": self.states, "transitions": self.transitions,
            "traces_validated_against_impl": self.traces,
            "samples": self.samples or [{"note": "no sample collected"}],
            "events_validated": self.events, "vectors_replayed": self.vectors,
            "drift_events": self.drift, "exhaustive": self.exhaustive,
            "rule": rule, "steps": self.steps,
            "known_findings_hit": {k: n for k, (_, n) in hits.items()},
        }
        cov.update(self.extra)
        ev = {"property_id": self.pid, "tier": self.tier, "seed": self.seed, "level": level,
              "coverage": cov,
              "assumptions": self.assumptions + (trusted or []),
              "wall_s": wall, "violations": len(real)}
        os.makedirs(os.path.join(OUTDIR, "evidence"), exist_ok=True)
        json.dump(ev, open(os.path.join(OUTDIR, "evidence", "%s.json" % self.pid), "w"), indent=1)
        print("[%s] done in %.1fs: states=%d transitions=%d traces=%d violations=%d known=%d" %
              (self.pid, wall, self.states, self.transitions, self.traces, len(real), sum(n for _, n in hits.values())))
        return rc

    def cleanup(self):
        shutil.rmtree(self.work, ignore_errors=True)
        try:
            os.rmdir(os.path.join(OUTDIR, "work"))
        except OSError:
            pass
