EXTRA = {
 "C14": ("4.C14", "MC_Observe: every history to depth 6 (quick) / 7 (thorough) of Subject operations; invariant OneObserverPerEndpoint and the step properties RegisterShape, DeregisterExact, PathIsolation, NoCreationOnChange on every transition; every transition replayed on a real Subject with full-state comparison (hook accessors); random and directed histories validated by Trace_Observe",
         "TLA+ state machine (Observe) model-checked by TLC; spec->impl replay of every transition; impl->spec trace validation"),
 "C15": ("4.C15", "same models with the step properties SeqPlusOne, EvictIffExceeds, NonConfNeverCounts, AckResetsExactly; directed 600-round histories at limits 254/255 and the notification builder (token 0-8, sequence across byte-length boundaries, both types) validated by Trace_Observe against Observe.tla and Wire!Encode",
         "TLA+ state machine (Observe) model-checked by TLC; spec->impl replay; impl->spec trace validation"),
}
