"""Per-property pipelines.  Each function composes: build -> TLC model check (+ vector /
behaviour generation) -> replay into the code -> record from the code -> TLC trace validation."""
import os

import vlib

TRUSTED = [
    "TLC 1.8.0 and the CommunityModules Json/CSV/IOUtils operators",
    "the transcription of RFC 7252/7641/7959/6690/3629 and the IANA registries into spec/*.tla",
    "the harness's mechanical projection of Rust values to JSON (getters, Debug names)",
    "rustc/cargo, serde_json",
]

BOTH = ("dev", "release")


def rm(path):
    try:
        os.remove(path)
    except OSError:
        pass


# ------------------------------------------------------------------------------ C01-C04 codec
def _mc_message(ctx, props, modes, bins):
    for mode, maxv, emit, workers in modes:
        out = ctx.path("mm_%s.nd" % mode)
        env = {"MODE": mode, "MAXV": maxv}
        if emit:
            env["OUT"] = out
        ctx.model_check("MC_Message", env=env, workers=workers, timeout=1500)
        if emit:
            for b in bins:
                ctx.replay(b, "build", out, props, label="build-%s-%s" % (mode, os.path.basename(b)))
            rm(out)


def c01(ctx):
    dev, rel = ctx.build("dev"), ctx.build("release")
    modes = [("hdr", 1, True, 1), ("optq", 2, True, 1), ("long", 2, True, 1)]
    if ctx.thorough:
        modes += [("opt", 2, True, 1), ("optfull", 2, False, 16)]
    _mc_message(ctx, {"C01"}, modes, (dev, rel))
    bins = [dev, rel]
    if ctx.thorough:
        bins += [ctx.build("dev", "no-default"), ctx.build("dev", "udp")]
    for b in bins:
        tr, _ = ctx.record(b, "wire-build", name="wire-build-" + os.path.basename(b))
        ctx.validate("Trace_Wire", tr, {"C01"}, label="wire-build-" + os.path.basename(b))
        rm(tr)


def _wire_bytes(ctx, props):
    dev, rel = ctx.build("dev"), ctx.build("release")
    depth = 4 if ctx.thorough else 3
    out = ctx.path("wirebytes.nd")
    ctx.model_check("MC_WireBytes", env={"DEPTH": depth, "HDRS": "all", "OUT": out}, workers=8, timeout=1500)
    ctx.exhaustive = False
    for b in (dev, rel):
        ctx.replay(b, "wire", out, props, label="wire-" + os.path.basename(b))
    rm(out)
    for b in (dev, rel):
        tr, info = ctx.record(b, "wire-bytes", name="wire-bytes-" + os.path.basename(b))
        ctx.extra["swept_native_not_validated"] = ctx.extra.get("swept_native_not_validated", 0) + int(info.get("swept_native", 0))
        ctx.extra["forwarded_to_tlc"] = ctx.extra.get("forwarded_to_tlc", 0) + int(info.get("forwarded", 0))
        ctx.validate("Trace_Wire", tr, props, label="wire-bytes-" + os.path.basename(b))
        rm(tr)


def c02(ctx):
    _wire_bytes(ctx, {"C02"})


def c03(ctx):
    _wire_bytes(ctx, {"C03"})


def c04(ctx):
    dev, rel = ctx.build("dev"), ctx.build("release")
    modes = [("optq", 2, True, 1), ("long", 2, True, 1)]
    if ctx.thorough:
        modes += [("opt", 2, True, 1)]
    _mc_message(ctx, {"C04"}, modes, (dev, rel))
    bins = [dev, rel]
    if ctx.thorough:
        bins += [ctx.build("dev", "udp")]
    for b in bins:
        tr, _ = ctx.record(b, "wire-limit", name="wire-limit-" + os.path.basename(b))
        ctx.validate("Trace_Wire", tr, {"C04"}, label="wire-limit-" + os.path.basename(b))
        rm(tr)
    if ctx.thorough:
        # the same corpus under AddressSanitizer (an extra observation channel, not a second oracle)
        asan = ctx.build_asan()
        if asan:
            for drv in ("wire-limit", "wire-build", "wire-bytes"):
                ctx.run_asan(asan, drv, "C04")
        else:
            ctx.assumptions.append("AddressSanitizer build not available in this run: memory-safety clause observed through copy events only")


# ------------------------------------------------------------------------------ C05 registries
def c05(ctx):
    dev, rel = ctx.build("dev"), ctx.build("release")
    out = ctx.path("registry.nd")
    ctx.model_check("MC_Registry", env={"OUT": out}, workers=4, timeout=600, expect_states=65536)
    ctx.exhaustive = True
    for b in (dev, rel):
        ctx.replay(b, "registry", out, {"C05"}, label="registry-" + os.path.basename(b))
    rm(out)
    # growth (text forms): Header::set_code on every short text, accepted or precondition violated
    out = ctx.path("codetext.nd")
    ctx.model_check("MC_CodeText", env={"LEN": 5 if ctx.thorough else 4, "OUT": out}, workers=8, timeout=900, expect_states=20000)
    for b in (dev, rel):
        ctx.replay(b, "codetext", out, {"C05"}, label="codetext-" + os.path.basename(b))
    rm(out)


# ------------------------------------------------------------------------------ C06 typed option values
def c06(ctx):
    dev, rel = ctx.build("dev"), ctx.build("release")
    out = ctx.path("optval.nd")
    ctx.model_check("MC_OptionValue", env={"DEC3": "alpha" if ctx.thorough else "none", "OUT": out}, workers=8, timeout=900)
    for b in (dev, rel):
        ctx.replay(b, "optval", out, {"C06"}, label="optval-" + os.path.basename(b))
    rm(out)
    for b in (dev, rel):
        tr, _ = ctx.record(b, "optval", name="optval-" + os.path.basename(b))
        ctx.validate("Trace_Wire", tr, {"C06"}, label="optval-" + os.path.basename(b))
        rm(tr)


# ------------------------------------------------------------------------------ C13 block option value
def c13(ctx):
    dev, rel = ctx.build("dev"), ctx.build("release")
    out = ctx.path("blockvalue.nd")
    ctx.model_check("MC_BlockValue", env={"TAILS3": "all" if ctx.thorough else "boundary", "OUT": out}, workers=8, timeout=900)
    ctx.exhaustive = True
    for b in (dev, rel):
        ctx.replay(b, "blockvalue", out, {"C13"}, label="blockvalue-" + os.path.basename(b))
    rm(out)


# ------------------------------------------------------------------------------ C14 / C15 observe
def _observe(ctx, props):
    dev, rel = ctx.build("dev"), ctx.build("release")
    out = ctx.path("observe.nd")
    depth, limits = (7, "012") if ctx.thorough else (5, "01")
    ctx.model_check("MC_Observe", env={"DEPTH": depth, "LIMITS": limits, "OUT": out}, workers=8, timeout=1500)
    for b in (dev, rel):
        ctx.replay(b, "observe", out, props, label="observe-" + os.path.basename(b))
    rm(out)
    for b in (dev, rel):
        tr, _ = ctx.record(b, "observe", name="observe-" + os.path.basename(b))
        ctx.validate("Trace_Observe", tr, props, label="observe-" + os.path.basename(b))
        rm(tr)


def _observe_inductive(ctx):
    """ObserveTyped.tla: bound to Observe.tla by TLC on every transition of MC_Observe (quick and thorough);
    Apalache shows its invariant inductive and the C14/C15 step properties for a step from ANY state that
    satisfies it, i.e. for histories of every length (thorough)."""
    ctx.model_check("MC_ObserveBind", env={"DEPTH": 5 if ctx.thorough else 4, "LIMITS": "012"}, workers=8, timeout=1500, expect_states=5000)
    if ctx.thorough:
        ctx.apalache("MC_ObserveInd", "Init", "Inv", 0)
        ctx.apalache("MC_ObserveInd", "IndInit", "Inv", 1)
        ctx.apalache("MC_ObserveInd", "IndInit", "StepInv", 1)
        ctx.apalache("MC_ObserveInd", "IndInit", "SanityState", 1, expect_violation=True)
        ctx.apalache("MC_ObserveInd", "IndInit", "SanityStep", 1, expect_violation=True)


def _observe_server(ctx, props):
    """growth: RFC 7641 end to end over datagrams (ObserveServer.tla)"""
    dev = ctx.build("dev")
    out = ctx.path("observe-server-scripts.nd")
    ctx.model_check("MC_ObserveServer", env={"DEPTH": 6 if ctx.thorough else 4, "OUT": out}, workers=8, timeout=1500, expect_states=500)
    tr = ctx.path("observe-script-trace.ndjson")
    info = ctx.harness(dev, "rec", "observe-script", "--in", out, "--out", tr)
    ctx.events += int(info.get("events", 0))
    ctx.vectors += int(info.get("scripts", 0))
    tr2, _ = ctx.record(dev, "observe-server", name="observe-server")
    ctx.validate_many([("Trace_ObserveServer", tr, props, "observe-scripts"), ("Trace_ObserveServer", tr2, props, "observe-server")])
    rm(tr)
    rm(tr2)
    rm(out)


def c14(ctx):
    _observe(ctx, {"C14"})
    _observe_inductive(ctx)
    _observe_server(ctx, {"C14"})


def c15(ctx):
    _observe(ctx, {"C15"})
    _observe_inductive(ctx)
    _observe_server(ctx, {"C15"})


OBSERVE_RULE = ("TLC explores every history of register / deregister / notification round / acknowledge / set-limit calls up to "
                "the depth bound over 2 endpoints x 2 tokens x 2 paths x 2 ids x {CON, NON} x limits, checks the C14/C15 step "
                "properties on every transition and emits every evaluated transition; each is replayed on a real Subject and "
                "the full state (observer order, tokens, unacknowledged counts, pending ids via the cfg(coap_lite_verif) accessors) "
                "compared. Seeded random histories of length 200 over larger alphabets, directed long histories at limits 10/254/255 "
                "and the notification builder are recorded and validated step by step by Trace_Observe. A case is one emitted "
                "transition (distinct history) or one recorded episode. Beyond the depth bound: ObserveTyped.tla (bound to "
                "Observe.tla by TLC on every transition, MC_ObserveBind) carries an inductive invariant; in the thorough tier "
                "Apalache shows it inductive and the C14/C15 step properties for one step from any state satisfying it "
                "(3 endpoints x 2 tokens x 3 paths), i.e. for histories of every length, with two claims that must be refuted as vacuity guards.")

# ------------------------------------------------------------------------------ C16-C18 link format
def _link_trace(ctx, what, props, bins):
    for b in bins:
        tr, info = ctx.record(b, "link", name="link-%s-%s" % (what, os.path.basename(b)), what=what)
        if info.get("swept_native"):
            ctx.extra["swept_native_not_validated"] = ctx.extra.get("swept_native_not_validated", 0) + int(info["swept_native"])
            ctx.extra["forwarded_to_tlc"] = ctx.extra.get("forwarded_to_tlc", 0) + int(info.get("forwarded", 0))
        ctx.validate("Trace_LinkFormat", tr, props, label="link-%s-%s" % (what, os.path.basename(b)))
        rm(tr)


def c16(ctx):
    dev, rel = ctx.build("dev"), ctx.build("release")
    modes = ["value", "struct", "value4", "keys"] + (["value3"] if ctx.thorough else [])
    for mode in modes:
        out = ctx.path("lw_%s.nd" % mode)
        ctx.model_check("MC_LinkWrite", env={"MODE": mode, "OUT": out}, workers=8, timeout=900)
        for b in (dev, rel):
            ctx.replay(b, "linkwrite", out, {"C16"}, label="linkwrite-%s-%s" % (mode, os.path.basename(b)))
        rm(out)
    _link_trace(ctx, "roundtrip", {"C16"}, (dev, rel))


def c17(ctx):
    dev, rel = ctx.build("dev"), ctx.build("release")
    out = ctx.path("lp.nd")
    ctx.model_check("MC_LinkParse", env={"DEPTH": 6 if ctx.thorough else 5, "OUT": out}, workers=8, timeout=1500)
    for b in (dev, rel):
        ctx.replay(b, "linkparse", out, {"C17"}, label="linkparse-" + os.path.basename(b))
    rm(out)
    _link_trace(ctx, "parse", {"C17"}, (dev, rel))


def c18(ctx):
    dev, rel = ctx.build("dev"), ctx.build("release")
    for mode in ["fault"] + (["struct"] if ctx.thorough else []):
        out = ctx.path("lw_%s.nd" % mode)
        ctx.model_check("MC_LinkWrite", env={"MODE": mode, "OUT": out}, workers=8, timeout=900)
        for b in (dev, rel):
            ctx.replay(b, "linkfault", out, {"C18"}, label="linkfault-%s-%s" % (mode, os.path.basename(b)))
        rm(out)
    _link_trace(ctx, "fault", {"C18"}, (dev, rel))


LINK_RULE = ("TLC explores the writer state machine call by call (documents grown link by link / attribute by attribute over "
             "structural alphabets, every fault position and mode of the sink) and all strings over the 10-letter structural "
             "alphabet up to the depth bound, checking the round trip, the writer fault properties and the iterator predicates "
             "in every state; every emitted document / string is replayed into the real writer and parsers; recorded runs "
             "(random documents, every prefix, random strings over a wide alphabet, every sink fault position per document) "
             "are judged by Trace_LinkFormat. A case is one emitted document/string or one recorded run.")

# ------------------------------------------------------------------------------ C07 / C19 convenience layer
def c07(ctx):
    dev, rel = ctx.build("dev"), ctx.build("release")
    out = ctx.path("exchange.nd")
    ctx.model_check("MC_Exchange", env={"OUT": out}, workers=8, timeout=900)
    for b in (dev, rel):
        ctx.replay(b, "exchange", out, {"C07"}, label="exchange-" + os.path.basename(b))
    rm(out)
    _server(ctx, {"C07"}, bins=(dev, rel))
    for b in (dev, rel):
        tr, info = ctx.record(b, "response", name="response-" + os.path.basename(b))
        ctx.extra["swept_native_not_validated"] = ctx.extra.get("swept_native_not_validated", 0) + int(info.get("swept_native", 0))
        ctx.extra["forwarded_to_tlc"] = ctx.extra.get("forwarded_to_tlc", 0) + int(info.get("forwarded", 0))
        ctx.validate("Trace_Views", tr, {"C07"}, label="response-" + os.path.basename(b))
        rm(tr)


def c19(ctx):
    dev, rel = ctx.build("dev"), ctx.build("release")
    modes = [("pairs", 4 if ctx.thorough else 3), ("triples", 0)]
    for mode, plen in modes:
        out = ctx.path("views_%s.nd" % mode)
        ctx.model_check("MC_Views", env={"MODE": mode, "PLEN": plen, "OUT": out}, workers=8, timeout=900)
        for b in (dev, rel):
            ctx.replay(b, "views", out, {"C19"}, label="views-%s-%s" % (mode, os.path.basename(b)))
        rm(out)
    for b in (dev, rel):
        tr, _ = ctx.record(b, "views", name="views-" + os.path.basename(b))
        ctx.validate("Trace_Views", tr, {"C19"}, label="views-" + os.path.basename(b))
        rm(tr)


VIEWS_RULE = ("TLC explores sequences of convenience setters and raw option calls (every named method, status, content format and "
              "observe action, every path over the token alphabet) and, for C07, request/serve interleavings of two clients; the "
              "set-then-get, raw-agreement and correlation properties are checked on every transition; every emitted transition is "
              "replayed into CoapRequest / CoapResponse / Packet comparing all getters, raw state, encoded bytes and both "
              "coap-message trait versions; recorded getter results (all 256 codes, raw option bytes), setter effects on random "
              "prior states, generic copies, prepared replies and applied errors are judged by Trace_Views. A case is one emitted "
              "transition or one recorded event.")

# ------------------------------------------------------------------------------ C08-C12, C20 block handler
def _block_traces(ctx, drivers, props, bins=None):
    bins = bins or (ctx.build("dev"), ctx.build("release"))
    jobs = []
    for drv in drivers:
        for b in bins:
            tr, _ = ctx.record(b, drv, name="%s-%s" % (drv, os.path.basename(b)))
            jobs.append(("Trace_BlockHandler", tr, props, "%s-%s" % (drv, os.path.basename(b))))
    ctx.validate_many(jobs)
    for j in jobs:
        rm(j[1])


def _never(module, env):
    """actions that the chosen MODE disables by construction (not a vacuity problem)"""
    if module == "MC_BlockMulti":
        return ()
    if module == "MC_BlockTransfer":
        return ()
    return ()


def _scripts(ctx, module, env, props, label, workers=8, bins=None, maxn=None, expect=None):
    """spec -> impl for the handler: TLC emits complete behaviours as call scripts; they are executed
    on the real handler and the recorded calls go through Trace_BlockHandler like any other trace."""
    bins = bins or (ctx.build("dev"), ctx.build("release"))
    out = ctx.path("scripts-%s.nd" % label)
    e = dict(env)
    e["OUT"] = out
    # emitted lines of MC_BlockTransfer can exceed 8 kB (whole call scripts): one worker, so that
    # concurrent appends never interleave
    if module == "MC_BlockTransfer":
        workers = 1
    ctx.model_check(module, env=e, workers=workers, timeout=1800, allow_never=_never(module, env), coverage=False, expect_states=expect)
    if os.path.getsize(out) == 0:
        raise vlib.ToolError("model %s emitted no script (vacuity guard)" % module)
    jobs = []
    for b in bins:
        tr = ctx.path("script-trace-%s-%s.ndjson" % (label, os.path.basename(b)))
        args = ["rec", "script", "--in", out, "--out", tr]
        if maxn:
            args += ["--max", maxn]
        info = ctx.harness(b, *args)
        ctx.events += int(info.get("events", 0))
        ctx.vectors += int(info.get("scripts", 0))
        jobs.append(("Trace_BlockHandler", tr, props, "scripts-%s-%s" % (label, os.path.basename(b))))
    ctx.validate_many(jobs)
    for j in jobs:
        rm(j[1])
    rm(out)


def _server(ctx, props, bins=None):
    """growth: the composed server loop over datagrams (Server.tla), end to end on the wire"""
    bins = bins or (ctx.build("dev"),)
    out = ctx.path("server-scripts.nd")
    ctx.model_check("MC_Server", env={"OUT": out}, workers=8, timeout=900, expect_states=1000)
    jobs = []
    for b in bins:
        tr = ctx.path("server-script-trace-%s.ndjson" % os.path.basename(b))
        info = ctx.harness(b, "rec", "server-script", "--in", out, "--out", tr)
        ctx.events += int(info.get("events", 0))
        jobs.append(("Trace_Server", tr, props, "server-scripts-" + os.path.basename(b)))
        tr2, _ = ctx.record(b, "server", name="server-" + os.path.basename(b))
        jobs.append(("Trace_Server", tr2, props, "server-" + os.path.basename(b)))
    ctx.validate_many(jobs)
    for j in jobs:
        rm(j[1])
    rm(out)


def _mixed(ctx, props):
    """mixed sessions: several actors using the protocol in a realistic but untidy way"""
    _block_traces(ctx, ["mixed"], props, bins=None if ctx.thorough else (ctx.build("dev"),))


def c08(ctx):
    size = "full" if ctx.thorough else "small"
    _scripts(ctx, "MC_BlockTransfer", {"MODE": "dl", "SIZE": size}, {"C08"}, "dl")
    # growth: a repeated block request (lost reply) while the transfer is unfinished
    _scripts(ctx, "MC_BlockTransfer", {"MODE": "dlre", "SIZE": size}, {"C08"}, "dlre", bins=(ctx.build("dev"),))
    _block_traces(ctx, ["block2", "budget"], {"C08"})
    _mixed(ctx, {"C08"})
    if ctx.thorough:
        _server(ctx, {"C08"})


def _splice(ctx, props):
    """growth: the public function extending_splice, complete table of MC_Splice replayed"""
    out = ctx.path("splice.nd")
    ctx.model_check("MC_Splice", env={"OUT": out}, workers=4, timeout=600, expect_states=300)
    for b in (ctx.build("dev"), ctx.build("release")):
        ctx.replay(b, "splice", out, props, label="splice-" + os.path.basename(b))
    rm(out)


def c09(ctx):
    size = "full" if ctx.thorough else "small"
    _splice(ctx, {"C09"})
    _scripts(ctx, "MC_BlockTransfer", {"MODE": "ul", "SIZE": size}, {"C09"}, "ul")
    # growth: the non-final blocks after block 0 in every order
    _scripts(ctx, "MC_BlockTransfer", {"MODE": "ulperm", "SIZE": "full"}, {"C09"}, "ulperm", bins=(ctx.build("dev"),))
    _block_traces(ctx, ["block1", "budget"], {"C09"})
    _mixed(ctx, {"C09"})
    if ctx.thorough:
        _server(ctx, {"C09"})


def c10(ctx):
    ctx.model_check("MC_Negotiate", env={"NPS": "wide" if ctx.thorough else "slab"}, workers=12, timeout=2400)
    size = "full" if ctx.thorough else "small"
    _scripts(ctx, "MC_BlockTransfer", {"MODE": "dl", "SIZE": size}, {"C10"}, "dl")
    _block_traces(ctx, ["budget", "block2"], {"C10"})
    _mixed(ctx, {"C10"})


def c11(ctx):
    size = "full" if ctx.thorough else "small"
    env = {"MODE": "hostile", "SIZE": size, "DEPTH": 2}
    ctx.model_check("MC_BlockMulti", env=env, workers=12, timeout=2400, coverage=False, expect_states=100)
    _splice(ctx, {"C11"})
    _scripts(ctx, "MC_BlockMulti", {"MODE": "hostile", "SIZE": size, "DEPTH": 2 if ctx.thorough else 1}, {"C11"}, "hostile")
    _block_traces(ctx, ["hostile"], {"C11"})
    _mixed(ctx, {"C11"})


def c12(ctx):
    size = "full" if ctx.thorough else "small"
    _scripts(ctx, "MC_BlockMulti", {"MODE": "iso", "SIZE": size, "DEPTH": 12}, {"C12"}, "iso", bins=None if ctx.thorough else (ctx.build("dev"),))
    # the two entry points of an exchange as separate steps, equal message ids on different endpoints
    _scripts(ctx, "MC_BlockMulti", {"MODE": "split", "SIZE": size, "DEPTH": 12}, {"C12"}, "split", bins=(ctx.build("dev"),))
    _block_traces(ctx, ["isolation"], {"C12"})
    _server(ctx, {"C12"})
    _mixed(ctx, {"C12"})
    _block_traces(ctx, ["hostile"], {"C12"}, bins=None if ctx.thorough else (ctx.build("dev"),))


def c20(ctx):
    size = "full" if ctx.thorough else "small"
    # exhaustive model check deeper than what is replayed in real time
    env = {"MODE": "expiry", "SIZE": size, "DEPTH": 8 if ctx.thorough else 7}
    ctx.model_check("MC_BlockMulti", env=env, workers=12, timeout=2400, coverage=False, expect_states=100)
    _scripts(ctx, "MC_BlockMulti", {"MODE": "expiry", "SIZE": size, "DEPTH": 6 if ctx.thorough else 5}, {"C20"}, "expiry",
             bins=(ctx.build("dev"),) if not ctx.thorough else None)
    _block_traces(ctx, ["expiry"], {"C20"})
    _mixed(ctx, {"C20"})


BLOCK_RULE = ("TLC model-checks the handler operators against client processes (MC_BlockTransfer: every AllowedSzx choice, "
              "liveness), all interleavings of scripted transfers with the solo-run oracle, clock ticks with expiry, and hostile "
              "request sequences (MC_BlockMulti), and the negotiation lemma (MC_Negotiate); complete behaviours are emitted as call "
              "scripts and executed on the real handler. Recorded calls of intercept_request / intercept_response (arguments, outcome, prepared reply, rewritten request "
              "payload, cache snapshot through the cfg(coap_lite_verif) hook, monotonic time before/after) are validated one by one "
              "by Trace_BlockHandler against the operators of BlockHandler.tla; transfer-level summaries (reassembled body, number of "
              "application calls, solo vs interleaved responses, reclaimed endpoints) are validated as well. A case is one recorded "
              "transfer / sequence (episode).")

TABLE_RULE = ("TLC evaluates the specification operator over the whole finite domain (one state per table key), checks the "
              "round-trip / well-formedness theorems in every state and emits the complete expected table; every row is "
              "compared with the real code in dev and release builds. A case is one table row; rows are distinct by key.")

CODEC_RULE = ("TLC enumerates the bounded model (builder-call orders / byte strings over a boundary alphabet) and "
              "checks the wire theorems in every state; every emitted transition or string is replayed into the real "
              "Packet (dev and release builds) and compared field by field and byte for byte; recorded calls of the "
              "real code are judged event by event by the trace specification. A case is one emitted vector or one "
              "recorded event; all are distinct by construction of the enumeration, random ones by seed.")

CHECKS = {
    "C01": (c01, {"rule": CODEC_RULE}),
    "C02": (c02, {"rule": CODEC_RULE}),
    "C03": (c03, {"rule": CODEC_RULE}),
    "C04": (c04, {"rule": CODEC_RULE}),
    "C05": (c05, {"rule": TABLE_RULE}),
    "C06": (c06, {"rule": TABLE_RULE + " Typed getters/setters on a message are additionally recorded after random typed builder calls and validated by Trace_Wire element by element."}),
    "C07": (c07, {"rule": VIEWS_RULE}),
    "C19": (c19, {"rule": VIEWS_RULE}),
    "C08": (c08, {"rule": BLOCK_RULE}),
    "C09": (c09, {"rule": BLOCK_RULE}),
    "C10": (c10, {"rule": BLOCK_RULE}),
    "C11": (c11, {"rule": BLOCK_RULE}),
    "C12": (c12, {"rule": BLOCK_RULE}),
    "C20": (c20, {"rule": BLOCK_RULE}),
    "C13": (c13, {"rule": TABLE_RULE}),
    "C16": (c16, {"rule": LINK_RULE}),
    "C17": (c17, {"rule": LINK_RULE}),
    "C18": (c18, {"rule": LINK_RULE}),
    "C14": (c14, {"rule": OBSERVE_RULE}),
    "C15": (c15, {"rule": OBSERVE_RULE}),
}
