#!/usr/bin/env python3
"""Regenerates the sensitivity tables of DESIGN.md 9.5 from selftest_results.json and seeded/*/meta.json."""
import json, os, re, glob
ROOT = os.path.dirname(os.path.dirname(os.path.abspath(__file__)))
st = json.load(open(os.path.join(ROOT, "selftest_results.json")))
rows = ["#### 9.5.1 Self-test mutants (`bin/selftest`)", "",
        "| change | property | result | what it does |", "|---|---|---|---|"]
for r in sorted(st, key=lambda r: (r["props"], r["name"])):
    if r["name"].startswith("seeded-"):
        continue
    checks = ", ".join("%s exit %s" % (k, v["rc"]) for k, v in r.get("checks", {}).items())
    status = r["status"].split(":")[0]
    rows.append("| `%s` | %s | %s%s | %s |" % (r["name"], " ".join(r["props"]), status, (" (" + checks + ")") if checks else "", r.get("why", "").replace("|", "/")[:110]))
n_c = sum(r["status"] == "caught" for r in st if not r["name"].startswith("seeded-"))
n_m = sum(r["status"] == "MISSED" for r in st if not r["name"].startswith("seeded-"))
n_i = sum(r["status"].startswith("inadmissible") for r in st)
rows += ["", "%d caught, %d missed, %d inadmissible (the crate's own tests already fail on them; kept in the table for the record, replaced in `bin/mutants.py`)." % (n_c, n_m, n_i),
         "A change aimed at two properties counts as caught when the check of at least one of them reports it; `c17-attr-split-in-quotes` is correctly *not* reported by C17 (its predicates still hold) and is reported by C16."]
selftest = "\n".join(rows)
rows = ["#### 9.5.2 Changes seeded by independent sub-agents (`seeded/<id>/`)", "",
        "Each sub-agent saw only the text of one property and a scratch worktree; each change was confirmed here in a fresh worktree (the 49 tests pass with it, its demonstration fails with it and passes without it) before the checks were run against it.", "",
        "| id | property | caught by | needed strengthening | what the change is / what it needs to manifest |", "|---|---|---|---|---|"]
extra = {"C08": "yes: downloads after an abandoned earlier transfer on the same key (model `DlPre`, driver `prior`)",
         "C12": "yes: token length varied per request; the reply's wire image (`wire`) is recorded and must decode to the prepared reply",
         "R2C04": "yes: messages whose public header field was replaced after set_token (token-length nibble != token) at the limit boundaries",
         "R2C11": "yes (attribution): the rejection was reported under C20 only ('behaves as if expired'); the pinned predicates are now reported as well",
         "R2C16": "yes: a non-ASCII White_Space character in the model alphabet; driver values with white-space edges",
         "R3C02": "yes: C02 is now judged on every accepted datagram, also one that should have been rejected; 0xFE added to the model alphabet (running option number past 65535)",
         "R3C10": "yes: uploads whose overhead grows from the second block on under a tight budget; resuming at a non-zero block with an over-sized block after an abandoned upload",
         "R3C17": "yes: the two unquoting paths are compared at every iterator position, not only on the fresh value",
         "R3C20": "yes: expiry elapsing between intercept_request and intercept_response (slow application); a response pushed through the handler as the first use after expiry",
         "R4C01": "yes: the header's token-length nibble is builder state of its own in Trace_Wire; driver edits / replaces the header behind set_token's back and calls set_token again",
         "R4C06": "yes (attribution + driver): a state mismatch after a typed setter is reported under C06; typed episodes concentrate on few numbers so that multi-valued options meet the setters",
         "R4C09": "yes: bodies with repeated content (constant, periodic, repeated tail) in drivers and model",
         "R5C02": "yes: runs of 2-5 values under one option number with every header length class, in datagrams encoded by hand (independent of the serialiser) and in every random message",
         "R5C04": "yes (runner): a process killed by a signal inside the code under test (std's unsafe-precondition abort, allocator corruption) was a tool error; it is now re-run in breadcrumb mode and reported as a violation with the failing vector",
         "R5C11": "yes: hostile sessions that start from an upload in progress, follow-ups aimed at the buffered range with payload lengths that ignore the declared block size (random and a directed family)",
         "R5C14": "yes: path keys that differ only by what a normalisation would fold ('/a', 'a/', 'A' next to 'a'), near misses of every key used by notification rounds and observed after every call; probe path in MC_Observe",
         "R6C05": "yes: the API's catch-all names (values that are the image of no number) as rows of their own in MC_Registry: their byte, what it reads back as, is_error; is_error also checked from the name side; catch-all option/code variants carry every number",
         "R6C06": "yes: get_content_format added to the typed projection judged by Trace_Wire (first stored value, <= 2 bytes, registered id); raw multi-valued Content-Format / Observe / Accept in the recorders",
         "R6C08": "yes: application replies carrying options with a meaning of their own (Observe, Size2, Max-Age 0) in drivers and model",
         "R6C09": "yes: uploads whose final reply is large (leaves in Block2 blocks), carries options, or whose final block names a Block2 size; `AckKept` pins the Block1 acknowledgement across intercept_response under C09",
         "R6C12": "yes: path keys that differ only by a trailing / leading empty segment, by case, or by an undecodable segment next to its lossy rendering (model key sets and isolation driver)",
         "R7C02": "yes: every option number the crate knows by name (and some it does not) with values shaped like its typed readings (leading zeros, over-long, empty), in datagrams encoded by hand",
         "R7C15": "yes: request fields an operation must not look at are noise in every replayed / recorded call (acknowledgements carrying any token and ACK or RST type; registrations with any message id, type, query, payload)",
         "R7C17": "yes (runner): a call into the code under test that does not return - the harness's watchdog ends the process (exit 3) after 20 s in one guarded call, the runner re-runs in breadcrumb mode and reports the vector as a violation",
         "R7C20": "yes: requests the handler refuses or cannot answer on a key holding live state (jump beyond the reserve, ACK/RST-typed blocks, malformed block options) in the mixed driver; `RetainOk` reports state the specification keeps but the call dropped under C20",
         "R8C01": "yes: messages at the default size limit with builder history that leaves nothing on the wire (options added and cleared, set to an empty list) through to_bytes(); a refusal of something that fits is reported under C01 too when no caller-chosen limit is involved",
         "R8C05": "caught at once, by a strengthening made while the change was still being written: numbers beyond the registries' width (registered number + 2^16 .. 2^63) as rows of MC_Registry",
         "R8C06": "yes: byte strings whose length would wrap in a narrower integer (255/256/512/65536 + 0..9) in the uint decoder's recorder",
         "R9C07": "yes: builder history on the prepared reply before the error is applied - a Content-Format set and withdrawn, raw values (empty, several, over-long), an emptied entry, an earlier error",
         "R9C15": "yes: counters after very many rounds - runs of up to 2^24 non-confirmable rounds performed in full but recorded as one event, `Observe!ChangedMany` being their closed form (checked against single rounds in MC_Observe); single rounds recorded around 2^8, 2^16, 2^24",
         "R9C20": "yes: expiries that are not whole milliseconds (0, 1 us, 750 us, 999 us, 1.5 ms, 20.5 ms); the trace carries a lower and an upper bound and the interval clocks use the right one on each side",
         "R10C05": "yes: every number also goes through the message-level accessors (raw option bytes -> get_content_format / get_observe_flag -> name, set_content_format -> bytes), not only through the conversion functions",
         "R10C08": "yes: options a client repeats on every request of a transfer, follow-up blocks included (Observe register / deregister, Accept, If-None-Match, Uri-Query, Size1) in the download driver; observing clients in MC_BlockTransfer",
         "R10C16": "yes: every attribute name the crate knows (rel, anchor, ..., et) and some it does not as keys, with repetitions - model MODE keys (one link, up to three attributes, 21 keys in every order) and the random documents",
         "R11C03": "yes: every first header byte with every code byte on datagrams that end right after the token (and with one option and a payload), swept natively; whatever is rejected, panics or does not round-trip is forwarded to TLC with a sample of the rest",
         "R11C07": "yes: requests whose header token-length nibble does not match the stored token (header field replaced wholesale) in the response recorder; the reply's own encoding is part of the judged event",
         "R11C10": "yes: transfers of 19 blocks (4100 in the thorough tier) at budgets whose room is the block size -9..+1, longest token, replies with and without options below Block2; the size the handler chose when it fragmented is tracked per key and `C10FollowOk` pins that every later block of that size fits the budget",
         "R11C11": "yes: Uri-Path segments around the 255-byte limit (253..300 bytes, ASCII and with a multi-byte character across offsets 254..257, followed by an empty segment) in hostile requests",
         "R11C20": "yes: a transfer kept busy only by repeats of the last block request (download and upload), each gap 0.3 x expiry, the total 2 x expiry: the next block still comes from the live entry",
         "R12C05": "yes: class and detail fields that only fit an integer wider than a byte (256, 260, 287, 512, 65540, 2^32+4, 2^64+4, ...) as a second family of MC_CodeText; '4' added to its alphabet",
         "R12C06": "yes: a setter called with the very value the getter reports while the stored bytes are a padded encoding of it (raw call or peer)",
         "R12C09": "yes: an upload of 4200 bytes in 16-byte blocks (5000 / 8300 in the thorough tier): block numbers above 255, two-byte Block1 values",
         "R12C18": "yes: a link's attribute writer dropped without finish() (none / all / alternating links) under every fault position; the last-link clause of the fault judgement only applies to a finished link",
         "R13C02": "caught at once, by a strengthening made while the change was being written: large datagrams encoded by hand (300 values under one number, 300 numbers, a 65 804-byte value, a payload above 64 KiB)",
         "R13C03": "caught at once, likewise: reserved token lengths 9..15 with exactly / one more / one fewer than that many bytes after the header",
         "R13C07": "caught at once, likewise: errors with an empty and with a 300-byte diagnostic text",
         "R13C14": "caught at once, likewise: tokens that differ only in length or leading zero bytes ([] / [0] / [0,0] / [0;8], [1] / [0,1]); MC_Observe's two tokens are [] and [0]",
         "R13C17": "caught at once, likewise: long link-format inputs (300 000 white-space characters before a link, 200 000-character targets / values / keys, 50 000 attributes, 30 000 links) evaluated natively; the harness dying of a stack overflow is reported as a violation",
         "R13C20": "yes: freshness options (Max-Age 0 / 1) on the application's replies in the retention and mixed drivers",
         "R14C01": "caught at once, by a measure taken while the change was being written: large messages through the unlimited entry point (hundreds of values / numbers, values of 65535 / 65536 / 65549 / 65804 bytes, 70 000-byte payload)",
         "R14C09": "yes: options a client may put on the blocks of an upload - a Size1 estimate (exact, too small, too large, 70 000; on block 0 or on every block), If-Match, Content-Format",
         "R14C12": "yes: a transfer whose steps are separated by 20..300 plain requests on other keys of the same endpoint, compared with its solo run; live state that vanishes while other keys are in use is reported under C12 as well as C20",
         "R14C18": "yes: the newline option set again (to the same value) between links under every fault position",
         "R14C19": "caught at once, by a measure taken while the change was being written: paths of 300 segments and segments of 256 / 400 bytes in set_path",
         "R15C04": "yes: the public HeaderRaw::serialize_into driven directly on buffers of every fill state (length 0..9, spare capacity 0..8) as a judged event of Trace_Wire: four bytes appended, refusal below capacity 4, length never above capacity",
         "R15C10": "yes: `HintOk` holds after intercept_response as well: the remembered client preference survives a reply (a second reply to the same request must still honour it)",
         "R15C15": "yes: sequence numbers that are not boundaries - all bytes different (0x01020304, 0x01000100, ...) and random ones of every length - in the notification builder's recorder",
         "R15C17": "caught at once: the position check compares collect() (fold-based) with to_cow / to_string at every position; a check of count / last / nth / fold / size_hint and of a clone taken half-way had just been added too",
         "R15C20": "yes: a call whose visible result (outcome, reply, request payload) is exactly what a pre-state forbidden by the expiry would produce and what no admissible pre-state produces is a C20 rejection, wherever the implementation keeps that state (the hidden snapshot need not agree)",
         "R16C01": "yes: the HeaderRaw::serialize_into events are recorded in the builder trace too and a misplaced header is a wrong wire image (C01) as well as a buffer matter (C04)",
         "R16C05": "caught at once, by a measure taken while the change was being written: every number through the second-level accessors (set_content_format / get_content_format were already swept; set_method / get_method, set_status / get_status, the coap-message Code and OptionNumber traits added)",
         "R16C09": "yes: 'no limit' budgets (usize::MAX, 2^40, 2^32, 2^31+5) for uploads and downloads; recorded budgets are clamped to TLC's integers",
         "R16C16": "yes: the empty key (with empty and non-empty values) in MC_LinkWrite MODE keys and in the random documents",
         "R16C19": "yes: code 0.00 in the trait-level set_code calls of MC_Views (after a payload was set)",
         "R17C02": "yes: datagrams with 1 276 / 1 277 / 1 500 / 3 000 options followed by a real option, the marker and a payload (more options than a size-limited message could hold)",
         "R17C07": "yes: after an error the reply holds exactly one Content-Format value (the option is not repeatable), whatever the prepared reply carried under it",
         "R17C20": "caught at once, by a measure taken while the change was being written: the 'next use' that must reclaim is varied - a request or a pushed response on an unrelated key, a response with a Block2 option of its own, a message that gets no response, a key kept busy throughout",
         "R18C09": "yes: the 4.13 hint names block 0 (pinned), and the oversize request arrives on a key that has seen other things before (a block-wise fetch abandoned at a later block, an unfinished upload)",
         "R20C19": "yes: the projection of a code is its byte plus its *form* (`Views!CodeForms`): the stored value is an enum, and besides the 256 values a byte decodes to the API can hold the catch-all method / status and a `Reserved` value with a named code's byte; both trait views must hand out the stored form, the getters report UnKnown for it, same-type copies (`direct02`/`direct03`) keep it, copies through a byte are canonical; `set_method(UnKnown)` / `set_status(UnKnown)` and hand-built `Reserved(b)` for all 256 b in the recorder",
         "R21C07": "yes: diagnostics of 1023..4096 and 70 000 bytes (single- and two-byte characters) for every token length: the error's text is the reply's payload byte for byte whatever its length",
         "R21C10": "yes: an exchange whose two entry points are separated by 1..300 (1100) complete exchanges on other keys (`deferred-crowd` in the budget recorder): the client's Block2 preference must still be honoured; the lost state is reported under C20 / C12 and, through `HintOk` / `RespOk`, under C10",
         "R21C11": "yes: `BeyondEndOk` - where the specification refuses a Block2 request because the block starts at or beyond the end of a non-empty body (cached, or just produced for a first request naming a later block) the code must refuse it too; directed `at-the-end` family (bodies of k*size-1, k*size, k*size+1 bytes, the probe at the same and at smaller sizes, the honest client continuing afterwards)",
         "R21C17": "yes: after `nth(j)` / `skip(j)` / `step_by(2)` on a fresh value iterator what follows is the rest of the characters in both unquoting paths (j = 0, 1, 2, n/2, n-1, n), not only the element returned",
         "R21C20": "yes: a transfer kept in use only by requests for its key that the handler refuses (oversize body without Block1), each gap below the expiry and the total above it; reclamation where the next use of the handler is a refused request (body or options beyond the budget)",
         "R22C06": "yes: the typed setters / getters work on numbers drawn per episode from every registered option number and a few unregistered ones (no number is special to the typed API), strings with ASCII upper case",
         "R22C08": "yes: application replies whose options hold several values - the same value twice, an empty one in between, repeated ETags (option sets 6 and 7 of the drivers; set 1 of `MC_BlockTransfer`)",
         "R22C09": "yes: the method is no longer held constant - uploads by PUT, POST, FETCH, PATCH, iPATCH (one per transfer), oversize requests without Block1 under every method 1..7, downloads answering GET, FETCH, POST, DELETE",
         "R23C14": "yes: the registry key an episode expects is worked out by the driver from the request's segments (`Views!GetPath`), no longer asked of the code under test - `get_path()` is itself part of what `register` / `deregister` rely on",
         "R4C12": "yes: the two entry points of an exchange as separate steps with equal message ids on different endpoints (model MODE split, deferred responses in the mixed driver); a disturbed other key is reported under C12 in every branch",
         "R25C20": "yes: `retain` episodes (thousands of distinct keys pass while abandoned transfers sit inside a long expiry; live-entry counts before/after) + `retain` event in Trace_BlockHandler",
         "C20": "yes: expiry under block-wise traffic on other keys (model `Other` now block-wise; driver scenario `expiry-traffic`)"}
for d in sorted(glob.glob(os.path.join(ROOT, "seeded", "*", "meta.json"))):
    m = json.load(open(d))
    sid = m["id"]
    notes = m.get("needs", "")
    first = " ".join(notes.split())[:260].replace("|", "/")
    caught = ", ".join("bin/check %s (exit %d)" % (k, v["rc"]) for k, v in m["checks"].items())
    rows.append("| %s | %s | %s | %s | %s |" % (sid, m["property"], caught if m.get("caught") else "**MISSED** " + caught, extra.get(sid, "no"), first))
seeded = "\n".join(rows)
p = os.path.join(ROOT, "DESIGN.md")
s = open(p).read()
def put(tag, text):
    global s
    b, e = "<!-- %s:BEGIN -->" % tag, "<!-- %s:END -->" % tag
    if b in s:
        s = s[:s.index(b) + len(b)] + "\n" + text + "\n" + s[s.index(e):]
    else:
        s = s.replace(tag + "_TABLE", b + "\n" + text + "\n" + e)
put("SELFTEST", selftest)
put("SEEDED", seeded)
open(p, "w").write(s)
print("tables written")
