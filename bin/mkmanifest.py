#!/usr/bin/env python3
"""Regenerates MANIFEST.json from the table below (kept in one place so it stays valid)."""
import json, os, subprocess
ROOT = os.path.dirname(os.path.dirname(os.path.abspath(__file__)))
NOTE = ("Bounded: TLC is exhaustive only inside the stated alphabets/depths; conformance of the code to the "
        "specification is established on every emitted vector/transition and every recorded event (dev and release "
        "builds), not for all executions. Trusted: TLC, CommunityModules, the RFC/IANA transcription in spec/, the "
        "harness's JSON projection.")
CLAIMED = {
 "C01": ("4.C01", "MC_Message (all builder-call orders over boundary alphabets; round-trip, length-formula and canonicity theorems in every state), every emitted transition replayed into Packet, recorded builder traces validated by Trace_Wire",
         "TLA+ model (Wire/Message) checked by TLC; spec->impl replay of every transition; impl->spec trace validation"),
 "C02": ("4.C02", "MC_WireBytes (every string over a 23-byte boundary alphabet to depth 3/4 after 10 headers; losslessness theorem as invariant), all strings replayed into from_bytes/to_bytes_unlimited and compared with Canon; recorded decode traces judged by Trace_Wire; native sweep of all <=2/3-byte suffixes forwards anomalies to TLC",
         "TLA+ model (Wire) checked by TLC; spec->impl vectors; impl->spec trace validation"),
 "C03": ("4.C03", "same pipeline as C02 read with the three-valued verdict of Wire!Decode (must_accept / must_reject / either); a panic is a recorded outcome that no specification action allows",
         "TLA+ reference grammar (Wire!Decode) evaluated by TLC as oracle; spec->impl vectors; impl->spec trace validation"),
 "C04": ("4.C04", "Wire!ToBytes / WireLen and the buffer-protocol plan (Message!CopyPlan, PlanWithinBounds) model-checked over MC_Message; limit-1/limit/limit+1 replayed for every emitted transition; recorded to_bytes* calls with the cfg(coap_lite_verif) copy events validated by Trace_Wire (offset+n <= capacity per raw copy, exact length, exact bytes)",
         "TLA+ model checked by TLC; spec->impl replay; impl->spec trace validation with copy-event hooks"),
 "C05": ("4.C05", "Registry.tla (IANA tables) checked for well-formedness; TLC emits the complete expected table (65536 numbers x option/content-format/observe, 256 codes with class/name/text/is-error, 256 header bytes, every registry name, the catch-all names, numbers beyond the registries' width); every row compared with the crate both ways, through the conversion functions and through the message-level accessors; MC_CodeText: Header::set_code on every text of up to 4/5 characters (accepted with the parsed code, or precondition violated)",
         "TLA+ registry module; TLC-generated complete tables replayed into the code (exhaustive)"),
 "C06": ("4.C06", "MC_OptionValue: round trip, minimality and decode-totality theorems over all 8/16-bit values, boundary 32/64-bit values, all byte strings <= 2 (<= 3 over a 32-byte alphabet, thorough); complete tables replayed; random typed builder sequences recorded and validated by Trace_Wire element by element",
         "TLA+ operators checked by TLC; TLC-generated tables replayed; impl->spec trace validation"),
 "C13": ("4.C13", "MC_BlockValue: Dec(Enc(t)) = t, minimal length and size for all 1 048 576 triples; complete encode table, decode table for all strings <= 2 bytes and boundary/all 3-byte strings, construction table; every row replayed into BlockValue",
         "TLA+ operators checked by TLC; TLC-generated complete tables replayed into the code (exhaustive)"),
}
EXTRA = {}
try:
    exec(open(os.path.join(ROOT, "bin", "manifest_extra.py")).read())
except FileNotFoundError:
    pass
CLAIMED.update(EXTRA)
allp = [json.loads(l)["id"] for l in open(os.path.join(ROOT, "properties.jsonl"))]
checks = []
for pid in allp:
    if pid not in CLAIMED:
        continue
    ref, text, tech = CLAIMED[pid]
    checks.append({"property_id": pid, "quick_cmd": "bin/check %s --tier quick" % pid,
                   "thorough_cmd": "bin/check %s --tier thorough" % pid,
                   "evidence_file": "/verif/evidence/%s.json" % pid,
                   "replay_cmd_template": "bin/check %s --replay {path}" % pid, "engine": "tla",
                   "level_claimed": {"category": "model_checking", "text": text, "design_ref": ref},
                   "level_note": NOTE, "technique": tech})
na = [{"property_id": p, "reason": "check under construction in this session (specification module not yet bound to the code); will be claimed once its pipeline runs"} for p in allp if p not in CLAIMED]
hooks = subprocess.run(["git", "-C", "/repo", "log", "--format=%h %s"], stdout=subprocess.PIPE, text=True).stdout.splitlines()
hook_commits = [l.split()[0] for l in hooks if l.split(" ", 1)[1].startswith("verif hooks")]
m = {"version": 1,
     "setup_cmd": "cd /verif/harness && cargo build --offline --quiet && cargo build --offline --quiet --release",
     "hooks": {"guard": "coap_lite_verif",
               "enable": "RUSTFLAGS=\"--cfg coap_lite_verif --check-cfg cfg(coap_lite_verif)\" (set in /verif/harness/.cargo/config.toml; the harness depends on /repo by path)",
               "baseline_off_cmd": "cd /repo && cargo test --workspace --no-fail-fast --offline",
               "source_commits": hook_commits, "add_only": True},
     "engines": [{"name": "tla", "path": "/verif/spec", "serves_properties": [c["property_id"] for c in checks],
                  "kind_free_text": "explicit TLA+ specification checked with TLC; bound to the code by replaying TLC-generated behaviours into the crate and by validating traces recorded from the crate (bin/check, harness/)"}],
     "checks": checks, "notes": "See DESIGN.md. Exit 2 = tool trouble (never a VIOLATION)."}
m["not_applicable"] = na      # empty: every property is decided with the specification
json.dump(m, open(os.path.join(ROOT, "MANIFEST.json"), "w"), indent=1)
print("claimed", len(checks), "not claimed", len(na))
