//! C05: compare the crate's number tables with the rows TLC generates from Registry.tla.
use crate::util::*;
use coap_lite::{CoapRequest, Packet, CoapOption, ContentFormat, Header, HeaderRaw, MessageClass, MessageType, ObserveOption, RequestType, ResponseType};
use serde_json::{json, Value};
use std::collections::BTreeSet;
use std::convert::TryFrom;

/// crate variant -> registry name.  The match is exhaustive, so a new variant is a compile
/// error here (tool error), not a silently unchecked name.
pub fn option_name(o: CoapOption) -> &'static str {
    match o {
        CoapOption::IfMatch => "If-Match",
        CoapOption::UriHost => "Uri-Host",
        CoapOption::ETag => "ETag",
        CoapOption::IfNoneMatch => "If-None-Match",
        CoapOption::Observe => "Observe",
        CoapOption::UriPort => "Uri-Port",
        CoapOption::LocationPath => "Location-Path",
        CoapOption::Oscore => "OSCORE",
        CoapOption::UriPath => "Uri-Path",
        CoapOption::ContentFormat => "Content-Format",
        CoapOption::MaxAge => "Max-Age",
        CoapOption::UriQuery => "Uri-Query",
        CoapOption::Accept => "Accept",
        CoapOption::LocationQuery => "Location-Query",
        CoapOption::Block2 => "Block2",
        CoapOption::Block1 => "Block1",
        CoapOption::ProxyUri => "Proxy-Uri",
        CoapOption::ProxyScheme => "Proxy-Scheme",
        CoapOption::Size1 => "Size1",
        CoapOption::Size2 => "Size2",
        CoapOption::NoResponse => "No-Response",
        CoapOption::Unknown(_) => "-",
    }
}

pub const ALL_OPTIONS: &[CoapOption] = &[
    CoapOption::IfMatch, CoapOption::UriHost, CoapOption::ETag, CoapOption::IfNoneMatch, CoapOption::Observe,
    CoapOption::UriPort, CoapOption::LocationPath, CoapOption::Oscore, CoapOption::UriPath, CoapOption::ContentFormat,
    CoapOption::MaxAge, CoapOption::UriQuery, CoapOption::Accept, CoapOption::LocationQuery, CoapOption::Block2,
    CoapOption::Block1, CoapOption::ProxyUri, CoapOption::ProxyScheme, CoapOption::Size1, CoapOption::Size2,
    CoapOption::NoResponse,
];

/// ContentFormat is #[non_exhaustive]: names come from Debug through this table; a Debug name
/// missing from it is a tool error.
pub const CF_NAMES: &[(&str, &str)] = &[
    ("TextPlain", "text/plain; charset=utf-8"),
    ("ApplicationCoseEncrypt0", "application/cose; cose-type=\"cose-encrypt0\""),
    ("ApplicationCoseMac0", "application/cose; cose-type=\"cose-mac0\""),
    ("ApplicationCoseSign1", "application/cose; cose-type=\"cose-sign1\""),
    ("ApplicationAceCbor", "application/ace+cbor"),
    ("ImageGif", "image/gif"),
    ("ImageJpeg", "image/jpeg"),
    ("ImagePng", "image/png"),
    ("ApplicationLinkFormat", "application/link-format"),
    ("ApplicationXML", "application/xml"),
    ("ApplicationOctetStream", "application/octet-stream"),
    ("ApplicationEXI", "application/exi"),
    ("ApplicationJSON", "application/json"),
    ("ApplicationJsonPatchJson", "application/json-patch+json"),
    ("ApplicationMergePatchJson", "application/merge-patch+json"),
    ("ApplicationCBOR", "application/cbor"),
    ("ApplicationCWt", "application/cwt"),
    ("ApplicationMultipartCore", "application/multipart-core"),
    ("ApplicationCborSeq", "application/cbor-seq"),
    ("ApplicationCoseEncrypt", "application/cose; cose-type=\"cose-encrypt\""),
    ("ApplicationCoseMac", "application/cose; cose-type=\"cose-mac\""),
    ("ApplicationCoseSign", "application/cose; cose-type=\"cose-sign\""),
    ("ApplicationCoseKey", "application/cose-key"),
    ("ApplicationCoseKeySet", "application/cose-key-set"),
    ("ApplicationSenmlJSON", "application/senml+json"),
    ("ApplicationSensmlJSON", "application/sensml+json"),
    ("ApplicationSenmlCBOR", "application/senml+cbor"),
    ("ApplicationSensmlCBOR", "application/sensml+cbor"),
    ("ApplicationSenmlExi", "application/senml-exi"),
    ("ApplicationSensmlExi", "application/sensml-exi"),
    ("ApplicationYangDataCborSid", "application/yang-data+cbor; id=sid"),
    ("ApplicationCoapGroupJson", "application/coap-group+json"),
    ("ApplicationDotsCbor", "application/dots+cbor"),
    ("ApplicationMissingBlocksCborSeq", "application/missing-blocks+cbor-seq"),
    ("ApplicationPkcs7MimeServerGeneratedKey", "application/pkcs7-mime; smime-type=server-generated-key"),
    ("ApplicationPkcs7MimeCertsOnly", "application/pkcs7-mime; smime-type=certs-only"),
    ("ApplicationPkcs8", "application/pkcs8"),
    ("ApplicationCsrattrs", "application/csrattrs"),
    ("ApplicationPkcs10", "application/pkcs10"),
    ("ApplicationPkixCert", "application/pkix-cert"),
    ("ApplicationAifCbor", "application/aif+cbor"),
    ("ApplicationAifJson", "application/aif+json"),
    ("ApplicationSenmlXML", "application/senml+xml"),
    ("ApplicationSensmlXML", "application/sensml+xml"),
    ("ApplicationSenmlEtchJson", "application/senml-etch+json"),
    ("ApplicationSenmlEtchCbor", "application/senml-etch+cbor"),
    ("ApplicationYangDataCbor", "application/yang-data+cbor"),
    ("ApplicationYangDataCborName", "application/yang-data+cbor; id=name"),
    ("ApplicationTdJson", "application/td+json"),
    ("ApplicationVoucherCoseCbor", "application/voucher-cose+cbor"),
    ("ApplicationVndOcfCbor", "application/vnd.ocf+cbor"),
    ("ApplicationOscore", "application/oscore"),
    ("ApplicationJavascript", "application/javascript"),
    ("ApplicationJsonDeflate", "application/json; deflate"),
    ("ApplicationCborDeflate", "application/cbor; deflate"),
    ("ApplicationVndOmaLwm2mTlv", "application/vnd.oma.lwm2m+tlv"),
    ("ApplicationVndOmaLwm2mJson", "application/vnd.oma.lwm2m+json"),
    ("ApplicationVndOmaLwm2mCbor", "application/vnd.oma.lwm2m+cbor"),
    ("TextCss", "text/css"),
    ("ImageSvgXml", "image/svg+xml"),
];

pub const ALL_CFS: &[ContentFormat] = &[
    ContentFormat::TextPlain,
    ContentFormat::ApplicationCoseEncrypt0,
    ContentFormat::ApplicationCoseMac0,
    ContentFormat::ApplicationCoseSign1,
    ContentFormat::ApplicationAceCbor,
    ContentFormat::ImageGif,
    ContentFormat::ImageJpeg,
    ContentFormat::ImagePng,
    ContentFormat::ApplicationLinkFormat,
    ContentFormat::ApplicationXML,
    ContentFormat::ApplicationOctetStream,
    ContentFormat::ApplicationEXI,
    ContentFormat::ApplicationJSON,
    ContentFormat::ApplicationJsonPatchJson,
    ContentFormat::ApplicationMergePatchJson,
    ContentFormat::ApplicationCBOR,
    ContentFormat::ApplicationCWt,
    ContentFormat::ApplicationMultipartCore,
    ContentFormat::ApplicationCborSeq,
    ContentFormat::ApplicationCoseEncrypt,
    ContentFormat::ApplicationCoseMac,
    ContentFormat::ApplicationCoseSign,
    ContentFormat::ApplicationCoseKey,
    ContentFormat::ApplicationCoseKeySet,
    ContentFormat::ApplicationSenmlJSON,
    ContentFormat::ApplicationSensmlJSON,
    ContentFormat::ApplicationSenmlCBOR,
    ContentFormat::ApplicationSensmlCBOR,
    ContentFormat::ApplicationSenmlExi,
    ContentFormat::ApplicationSensmlExi,
    ContentFormat::ApplicationYangDataCborSid,
    ContentFormat::ApplicationCoapGroupJson,
    ContentFormat::ApplicationDotsCbor,
    ContentFormat::ApplicationMissingBlocksCborSeq,
    ContentFormat::ApplicationPkcs7MimeServerGeneratedKey,
    ContentFormat::ApplicationPkcs7MimeCertsOnly,
    ContentFormat::ApplicationPkcs8,
    ContentFormat::ApplicationCsrattrs,
    ContentFormat::ApplicationPkcs10,
    ContentFormat::ApplicationPkixCert,
    ContentFormat::ApplicationAifCbor,
    ContentFormat::ApplicationAifJson,
    ContentFormat::ApplicationSenmlXML,
    ContentFormat::ApplicationSensmlXML,
    ContentFormat::ApplicationSenmlEtchJson,
    ContentFormat::ApplicationSenmlEtchCbor,
    ContentFormat::ApplicationYangDataCbor,
    ContentFormat::ApplicationYangDataCborName,
    ContentFormat::ApplicationTdJson,
    ContentFormat::ApplicationVoucherCoseCbor,
    ContentFormat::ApplicationVndOcfCbor,
    ContentFormat::ApplicationOscore,
    ContentFormat::ApplicationJavascript,
    ContentFormat::ApplicationJsonDeflate,
    ContentFormat::ApplicationCborDeflate,
    ContentFormat::ApplicationVndOmaLwm2mTlv,
    ContentFormat::ApplicationVndOmaLwm2mJson,
    ContentFormat::ApplicationVndOmaLwm2mCbor,
    ContentFormat::TextCss,
    ContentFormat::ImageSvgXml,
];

pub fn cf_name(cf: ContentFormat) -> &'static str {
    let d = format!("{:?}", cf);
    CF_NAMES.iter().find(|(k, _)| *k == d).map(|(_, v)| *v).unwrap_or_else(|| tool_error(&format!("content format variant {} has no registry name in the harness table", d)))
}

pub fn method_name(m: RequestType) -> &'static str {
    match m {
        RequestType::Get => "GET",
        RequestType::Post => "POST",
        RequestType::Put => "PUT",
        RequestType::Delete => "DELETE",
        RequestType::Fetch => "FETCH",
        RequestType::Patch => "PATCH",
        RequestType::IPatch => "iPATCH",
        RequestType::UnKnown => "-",
    }
}

pub const ALL_METHODS: &[RequestType] = &[RequestType::Get, RequestType::Post, RequestType::Put, RequestType::Delete, RequestType::Fetch, RequestType::Patch, RequestType::IPatch];

pub fn response_name(r: ResponseType) -> &'static str {
    match r {
        ResponseType::Created => "Created",
        ResponseType::Deleted => "Deleted",
        ResponseType::Valid => "Valid",
        ResponseType::Changed => "Changed",
        ResponseType::Content => "Content",
        ResponseType::Continue => "Continue",
        ResponseType::BadRequest => "Bad Request",
        ResponseType::Unauthorized => "Unauthorized",
        ResponseType::BadOption => "Bad Option",
        ResponseType::Forbidden => "Forbidden",
        ResponseType::NotFound => "Not Found",
        ResponseType::MethodNotAllowed => "Method Not Allowed",
        ResponseType::NotAcceptable => "Not Acceptable",
        ResponseType::Conflict => "Conflict",
        ResponseType::PreconditionFailed => "Precondition Failed",
        ResponseType::RequestEntityTooLarge => "Request Entity Too Large",
        ResponseType::UnsupportedContentFormat => "Unsupported Content-Format",
        ResponseType::RequestEntityIncomplete => "Request Entity Incomplete",
        ResponseType::UnprocessableEntity => "Unprocessable Entity",
        ResponseType::TooManyRequests => "Too Many Requests",
        ResponseType::InternalServerError => "Internal Server Error",
        ResponseType::NotImplemented => "Not Implemented",
        ResponseType::BadGateway => "Bad Gateway",
        ResponseType::ServiceUnavailable => "Service Unavailable",
        ResponseType::GatewayTimeout => "Gateway Timeout",
        ResponseType::ProxyingNotSupported => "Proxying Not Supported",
        ResponseType::HopLimitReached => "Hop Limit Reached",
        ResponseType::UnKnown => "-",
    }
}

pub const ALL_RESPONSES: &[ResponseType] = &[
    ResponseType::Created, ResponseType::Deleted, ResponseType::Valid, ResponseType::Changed, ResponseType::Content,
    ResponseType::Continue, ResponseType::BadRequest, ResponseType::Unauthorized, ResponseType::BadOption,
    ResponseType::Forbidden, ResponseType::NotFound, ResponseType::MethodNotAllowed, ResponseType::NotAcceptable,
    ResponseType::Conflict, ResponseType::PreconditionFailed, ResponseType::RequestEntityTooLarge,
    ResponseType::UnsupportedContentFormat, ResponseType::RequestEntityIncomplete, ResponseType::UnprocessableEntity,
    ResponseType::TooManyRequests, ResponseType::InternalServerError, ResponseType::NotImplemented,
    ResponseType::BadGateway, ResponseType::ServiceUnavailable, ResponseType::GatewayTimeout,
    ResponseType::ProxyingNotSupported, ResponseType::HopLimitReached,
];

fn type_name(t: MessageType) -> &'static str {
    match t {
        MessageType::Confirmable => "CON",
        MessageType::NonConfirmable => "NON",
        MessageType::Acknowledgement => "ACK",
        MessageType::Reset => "RST",
    }
}

fn class_desc(c: MessageClass) -> (&'static str, &'static str) {
    match c {
        MessageClass::Empty => ("empty", "Empty"),
        MessageClass::Request(m) => ("request", method_name(m)),
        MessageClass::Response(r) => ("response", response_name(r)),
        MessageClass::Reserved(_) => ("reserved", "-"),
    }
}

pub fn replay_registry(args: &Args) {
    let mut rep = Report::default();
    let mut named_seen: BTreeSet<(String, String)> = BTreeSet::new();
    for v in read_vectors(args.s("in")) {
        rep.evaluated += 1;
        let n = v["n"].as_u64().unwrap();
        if v["kind"] == "big" {
            // numbers beyond the registries' width: base + 2^shift (wrapping at the platform's usize)
            let big = (v["base"].as_u64().unwrap() as usize).wrapping_add(1usize.wrapping_shl(v["shift"].as_u64().unwrap() as u32));
            let cf = ContentFormat::try_from(big).map(cf_name).unwrap_or("-");
            let obs = match ObserveOption::try_from(big) { Ok(ObserveOption::Register) => "register", Ok(ObserveOption::Deregister) => "deregister", Err(_) => "-" };
            if cf != v["cf"].as_str().unwrap() || obs != v["obs"].as_str().unwrap() {
                rep.bad("C05", "a number beyond the registry's width is aliased to a named value", json!({"row": v, "number": big.to_string(), "cf": cf, "obs": obs}));
            }
            continue;
        }
        if v["kind"] == "catchall" {
            // the catch-all variants of the two code enums: their byte, what the byte reads back as, is_error
            let (b, kind, err) = match v["space"].as_str().unwrap() {
                "method" => { let b = u8::from(MessageClass::Request(RequestType::UnKnown)); (b, class_desc(MessageClass::from(b)).0, None) }
                _ => { let b = u8::from(MessageClass::Response(ResponseType::UnKnown)); (b, class_desc(MessageClass::from(b)).0, Some(ResponseType::UnKnown.is_error())) }
            };
            if b as u64 != n || kind != v["back"].as_str().unwrap() || err.map(|e| e != v["err"].as_bool().unwrap()).unwrap_or(false) {
                rep.bad("C05", "catch-all code name: byte / read-back / is_error disagree with the registry", json!({"row": v, "got": {"byte": b, "back": kind, "err": err}}));
            }
            continue;
        }
        if v["kind"] == "name" {
            let space = v["space"].as_str().unwrap();
            let name = v["name"].as_str().unwrap();
            named_seen.insert((space.to_string(), name.to_string()));
            let got: Option<(u64, bool)> = match space {
                "option" => ALL_OPTIONS.iter().find(|o| option_name(**o) == name).map(|o| (u16::from(*o) as u64, CoapOption::from(u16::from(*o)) == *o)),
                "content_format" => ALL_CFS.iter().find(|cf| cf_name(**cf) == name).map(|cf| (usize::from(*cf) as u64, ContentFormat::try_from(usize::from(*cf)).ok() == Some(*cf))),
                "method" => ALL_METHODS.iter().find(|m| method_name(**m) == name).map(|m| { let b = u8::from(MessageClass::Request(*m)); (b as u64, MessageClass::from(b) == MessageClass::Request(*m)) }),
                "response" => ALL_RESPONSES.iter().find(|m| response_name(**m) == name).map(|m| { let b = u8::from(MessageClass::Response(*m)); (b as u64, MessageClass::from(b) == MessageClass::Response(*m) && m.is_error() == v["err"].as_bool().unwrap()) }),
                "type" => [MessageType::Confirmable, MessageType::NonConfirmable, MessageType::Acknowledgement, MessageType::Reset].iter().find(|t| type_name(**t) == name).map(|t| { let mut h = Header::new(); h.set_type(*t); (type_num(h.get_type()) as u64, h.get_type() == *t) }),
                "observe" => [ObserveOption::Register, ObserveOption::Deregister].iter().find(|o| (if **o == ObserveOption::Register { "register" } else { "deregister" }) == name).map(|o| (usize::from(*o) as u64, ObserveOption::try_from(usize::from(*o)).ok() == Some(*o))),
                _ => tool_error("unknown name space"),
            };
            match got {
                Some((num, back)) if num == n && back => {}
                other => rep.bad("C05", "named value does not carry its registry number (name -> number -> name)", json!({"row": v, "got": format!("{:?}", other)})),
            }
            continue;
        }
        // number -> name -> number
        let nn = n as u16;
        let o = CoapOption::from(nn);
        // the catch-all option / code variants carry any number unchanged, also a registered one
        if u16::from(CoapOption::Unknown(nn)) != nn || (n <= 255 && u8::from(MessageClass::Reserved(n as u8)) != n as u8) {
            rep.bad("C05", "catch-all variant does not carry its number", json!({"row": v}));
        }
        if option_name(o) != v["opt"].as_str().unwrap() || u16::from(o) != nn {
            rep.bad("C05", "option number maps to the wrong name or not back to itself", json!({"row": v, "got": format!("{:?}", o), "back": u16::from(o)}));
        }
        // ... and through the coap-message trait layer (Code / OptionNumber of both trait versions)
        {
            let on3 = <CoapOption as coap_message_0_3::OptionNumber>::new(nn).map(u16::from).ok();
            if on3 != Some(nn) || <CoapOption as coap_message_0_3::OptionNumber>::new(nn).ok() != Some(CoapOption::from(nn)) {
                rep.bad("C05", "option number through coap-message 0.3 OptionNumber", json!({"row": v}));
            }
            if n <= 255 {
                let b = n as u8;
                let c3 = <MessageClass as coap_message_0_3::Code>::new(b).ok();
                let back3 = c3.map(|c| { let x: u8 = c.into(); x });
                let c2: MessageClass = b.into();
                fn via02<C: coap_message::Code>(c: C) -> u8 { c.into() }
                let back2: u8 = via02(c2);
                if c3 != Some(MessageClass::from(b)) || back3 != Some(b) || back2 != b {
                    rep.bad("C05", "code byte through the coap-message Code trait", json!({"row": v}));
                }
                // second-level accessors of requests / responses
                let mut rq: CoapRequest<String> = CoapRequest::new();
                rq.message.header.code = MessageClass::from(b);
                let m = *rq.get_method();
                let want_m = match MessageClass::from(b) { MessageClass::Request(r) => method_name(r), _ => "-" };
                if method_name(m) != want_m {
                    rep.bad("C05", "get_method disagrees with the code table", json!({"row": v, "got": method_name(m)}));
                }
                if let MessageClass::Request(r) = MessageClass::from(b) {
                    let mut q: CoapRequest<String> = CoapRequest::new();
                    q.set_method(r);
                    if u8::from(q.message.header.code) != b {
                        rep.bad("C05", "set_method stores another code", json!({"row": v}));
                    }
                }
                let mut rp = Packet::new();
                rp.header.code = MessageClass::from(b);
                if let Some(mut resp) = coap_lite::CoapResponse::new(&Packet::new()) {
                    resp.message.header.code = MessageClass::from(b);
                    let st = *resp.get_status();
                    let want_s = match MessageClass::from(b) { MessageClass::Response(r) => response_name(r), _ => "-" };
                    if response_name(st) != want_s {
                        rep.bad("C05", "get_status disagrees with the code table", json!({"row": v, "got": response_name(st)}));
                    }
                    if let MessageClass::Response(r) = MessageClass::from(b) {
                        resp.set_status(r);
                        if u8::from(resp.message.header.code) != b {
                            rep.bad("C05", "set_status stores another code", json!({"row": v}));
                        }
                    }
                }
                let _ = rp;
            }
        }
        // the same numbers through the message-level accessors (raw option bytes -> named value -> bytes)
        {
            let raw: Vec<u8> = if nn == 0 { vec![] } else if nn < 256 { vec![nn as u8] } else { nn.to_be_bytes().to_vec() };
            let mut p = Packet::new();
            p.add_option(CoapOption::ContentFormat, raw.clone());
            let name = p.get_content_format().map(cf_name).unwrap_or("-");
            let back = p.get_content_format().map(|cf| { let mut q = Packet::new(); q.set_content_format(cf); q.get_first_option(CoapOption::ContentFormat).cloned() });
            if name != v["cf"].as_str().unwrap() || back.map(|b| b != Some(raw.clone())).unwrap_or(false) {
                rep.bad("C05", "content-format id through get_content_format / set_content_format", json!({"row": v, "got": name}));
            }
            let mut rq: CoapRequest<String> = CoapRequest::new();
            rq.message.add_option(CoapOption::Observe, raw.clone());
            let flag = match rq.get_observe_flag() { Some(Ok(ObserveOption::Register)) => "register", Some(Ok(ObserveOption::Deregister)) => "deregister", _ => "-" };
            if flag != v["obs"].as_str().unwrap() {
                rep.bad("C05", "observe action through get_observe_flag", json!({"row": v, "got": flag}));
            }
        }
        match ContentFormat::try_from(n as usize) {
            Ok(cf) => {
                if cf_name(cf) != v["cf"].as_str().unwrap() || usize::from(cf) != n as usize {
                    rep.bad("C05", "content-format id maps to the wrong name or not back to itself", json!({"row": v, "got": format!("{:?}", cf), "back": usize::from(cf)}));
                }
            }
            Err(_) => {
                if v["cf"] != "-" {
                    rep.bad("C05", "registered content-format id reported as invalid", json!({"row": v}));
                }
            }
        }
        let obs = match ObserveOption::try_from(n as usize) {
            Ok(ObserveOption::Register) => "register",
            Ok(ObserveOption::Deregister) => "deregister",
            Err(_) => "-",
        };
        if obs != v["obs"].as_str().unwrap() {
            rep.bad("C05", "observe action number", json!({"row": v, "got": obs}));
        }
        if n <= 255 {
            let b = n as u8;
            let c = MessageClass::from(b);
            let (kind, name) = class_desc(c);
            let text = c.to_string();
            let mut h = Header::new();
            let parsed = guarded(|| { h.set_code(v["code"]["text"].as_str().unwrap()); u8::from(h.code) });
            let got = json!({"kind": kind, "name": name, "byte_back": u8::from(c), "text": text, "parsed": parsed, "get_code": guarded(|| { let mut hh = Header::new(); hh.code = c; hh.get_code() })});
            let ok = kind == v["code"]["kind"].as_str().unwrap()
                && name == v["code"]["name"].as_str().unwrap()
                && u8::from(c) == b
                && text == v["code"]["text"].as_str().unwrap()
                && parsed == Some(b)
                && got["get_code"] == v["code"]["text"];
            if !ok {
                rep.bad("C05", "code byte: class/name/text form/parse disagree with the registry", json!({"row": v, "got": got}));
            }
            if let MessageClass::Response(r) = c {
                if r.is_error() != v["code"]["err"].as_bool().unwrap() {
                    rep.bad("C05", "is_error disagrees with byte >= 0x80", json!({"row": v, "got": r.is_error()}));
                }
            }
            // first header byte
            let raw = HeaderRaw::try_from(&[b, 1, 0, 0][..]).unwrap();
            let hd = Header::from_raw(&raw);
            let mut ser = Vec::with_capacity(4);
            let _ = hd.to_raw().serialize_into(&mut ser);
            let hv = json!({"ver": hd.get_version(), "typ": type_num(hd.get_type()), "tkl": hd.get_token_length()});
            if hv != v["hdr"] || ser.first() != Some(&b) {
                rep.bad("C05", "first header byte fields", json!({"row": v, "got": hv, "ser": ser}));
            }
            // setters on top of this byte: each changes only its field
            for x in 0..4u8 {
                let mut h2 = hd.clone();
                h2.set_version(x);
                let mut h3 = hd.clone();
                h3.set_type(num_type(x as u64));
                let e2 = (b & 0x3F) | (x << 6);
                let e3 = (b & 0xCF) | (x << 4);
                let s = |h: &Header| { let mut s = Vec::with_capacity(4); let _ = h.to_raw().serialize_into(&mut s); s[0] };
                if s(&h2) != e2 || s(&h3) != e3 || h2.get_version() != x || type_num(h3.get_type()) != x {
                    rep.bad("C05", "header setter changed other fields", json!({"byte": b, "x": x}));
                }
            }
            for x in 0..16u8 {
                let mut h4 = hd.clone();
                h4.set_token_length(x);
                let mut s = Vec::with_capacity(4);
                let _ = h4.to_raw().serialize_into(&mut s);
                if s[0] != (b & 0xF0) | x || h4.get_token_length() != x {
                    rep.bad("C05", "set_token_length changed other fields", json!({"byte": b, "x": x}));
                }
            }
            if n <= 3 {
                let mut h5 = Header::new();
                h5.set_type(num_type(n));
                if type_name(h5.get_type()) != v["typ"].as_str().unwrap() {
                    rep.bad("C05", "message type number", json!({"row": v}));
                }
            }
            if n % 50 == 1 {
                rep.sample(json!({"row": v, "code": got}));
            }
        }
    }
    // every name of the crate's vocabulary must have been presented by the registry
    let mut vocab: Vec<(String, String)> = Vec::new();
    vocab.extend(ALL_OPTIONS.iter().map(|o| ("option".to_string(), option_name(*o).to_string())));
    vocab.extend(CF_NAMES.iter().map(|(_, r)| ("content_format".to_string(), r.to_string())));
    vocab.extend(ALL_METHODS.iter().map(|m| ("method".to_string(), method_name(*m).to_string())));
    vocab.extend(ALL_RESPONSES.iter().map(|m| ("response".to_string(), response_name(*m).to_string())));
    for k in vocab {
        if !named_seen.contains(&k) {
            tool_error(&format!("crate vocabulary name {:?} is not in Registry.tla", k));
        }
    }
    rep.write(args.s("out"));
}

/// Growth (text forms): Header::set_code on every text MC_CodeText enumerates.  Expected: the code the
/// specification parses, or a violated precondition (panic); never a different code.
pub fn replay_codetext(args: &Args) {
    let mut rep = Report::default();
    for v in read_vectors(args.s("in")) {
        rep.evaluated += 1;
        let text: String = v["t"].as_array().unwrap().iter().map(|c| c.as_u64().unwrap() as u8 as char).collect();
        let got = guarded(|| {
            let mut h = Header::new();
            h.code = MessageClass::Reserved(0xEE);
            h.set_code(&text);
            (u8::from(h.code), h.get_code())
        });
        let want_ok = v["ok"].as_bool().unwrap();
        let ok = match (&got, want_ok) {
            (None, false) => true,
            (Some((b, back)), true) => {
                let code = v["code"].as_u64().unwrap() as u8;
                // the stored code reads back as the canonical c.dd text of the same byte
                *b == code && *back == format!("{}.{:02}", code >> 5, code & 31)
            }
            _ => false,
        };
        if !ok {
            rep.bad("C05", "set_code(text) differs from ParseCodeText", json!({"row": v, "text": text, "got": format!("{:?}", got)}));
        }
        rep.count(if want_ok { "accepted" } else { "precondition" });
    }
    rep.write(args.s("out"));
}
