//! Growth beyond the listed properties: the composed server loop over datagrams
//! (from_bytes -> from_packet -> intercept_request -> application -> intercept_response ->
//! apply_from_error -> to_bytes), driven by reactive clients; events go to Trace_Server.
use crate::block::{body_bytes, Ep};
use crate::util::*;
use coap_lite::block_handler::{BlockHandler, BlockHandlerConfig, BlockValue};
use coap_lite::error::HandlingError;
use coap_lite::{CoapOption, CoapRequest, Packet};
use serde_json::{json, Value};
use std::convert::TryFrom;
use std::time::Duration;

fn sbody(n: usize, salt: usize) -> Vec<u8> {
    (1..=n).map(|i| ((i * 7 + salt * 13) % 256) as u8).collect()
}

/// the fixed application of Server.tla
fn app(req: &mut CoapRequest<Ep>) {
    let code = u8::from(req.message.header.code);
    let segs: Vec<Vec<u8>> = req.message.get_option(CoapOption::UriPath).map(|l| l.iter().cloned().collect()).unwrap_or_default();
    let pay = req.message.payload.clone();
    let resp = req.response.as_mut().unwrap();
    if code == 1 && segs == vec![b"big".to_vec()] {
        resp.message.header.code = 0x45.into();
        resp.message.payload = sbody(200, 3);
        resp.message.add_option(CoapOption::ETag, vec![1, 2]);
    } else if code == 1 && segs == vec![b"sm".to_vec()] {
        resp.message.header.code = 0x45.into();
        resp.message.payload = b"ok".to_vec();
    } else if code == 1 && segs == vec![b"e".to_vec()] {
        resp.message.header.code = 0x45.into();
        resp.message.payload = vec![];
    } else if code == 3 && segs == vec![b"st".to_vec()] {
        resp.message.header.code = 0x44.into();
        let sum = pay.iter().fold(0u32, |a, b| (a + *b as u32) % 256) as u8;
        resp.message.payload = vec![(pay.len() / 256) as u8, (pay.len() % 256) as u8, sum];
    } else {
        resp.message.header.code = 0x84.into();
    }
}

fn normalised(e: HandlingError) -> HandlingError {
    HandlingError { code: e.code, message: "E".to_string() }
}

/// one step of the real server loop: None = nothing is sent
pub fn serve(h: &mut BlockHandler<Ep>, ep: &str, dgram: &[u8]) -> Option<Vec<u8>> {
    let pkt = Packet::from_bytes(dgram).ok()?;
    let mut req = CoapRequest::from_packet(pkt, Ep::new(ep));
    match h.intercept_request(&mut req) {
        Err(e) => {
            if !req.apply_from_error(normalised(e)) {
                return None;
            }
        }
        Ok(true) => {}
        Ok(false) => {
            if req.response.is_some() {
                app(&mut req);
                if let Err(e) = h.intercept_response(&mut req) {
                    if !req.apply_from_error(normalised(e)) {
                        return None;
                    }
                }
            }
        }
    }
    req.response.and_then(|r| r.message.to_bytes().ok())
}

fn ev_dgram(out: &mut Out, h: &mut BlockHandler<Ep>, ep: &str, dgram: &[u8]) -> Option<Vec<u8>> {
    let r = guarded(|| serve(h, ep, dgram));
    let o = match &r {
        None => json!({"k": "panic"}),
        Some(None) => json!({"k": "none"}),
        Some(Some(b)) => json!({"k": "some", "bytes": jbytes(b)}),
    };
    out.ev(json!({"op": "dgram", "ep": ep, "in": jbytes(dgram), "out": o}));
    r.flatten()
}

fn new_handler(out: &mut Out, m: usize) -> BlockHandler<Ep> {
    out.ev(json!({"op": "reset", "M": m}));
    BlockHandler::new(BlockHandlerConfig { max_total_message_size: m, cache_expiry_duration: Duration::from_secs(3600) })
}

/// spec -> impl: datagram schedules emitted by MC_Server
pub fn rec_server_script(args: &Args) {
    let mut out = Out::create(args.s("out"));
    let mut n = 0u64;
    for v in read_vectors(args.s("in")) {
        n += 1;
        let mut h = new_handler(&mut out, v["M"].as_u64().unwrap() as usize);
        for st in v["steps"].as_array().unwrap() {
            ev_dgram(&mut out, &mut h, st["ep"].as_str().unwrap(), &vbytes(&st["dg"]));
        }
    }
    let e = out.finish();
    println!("{}", json!({"events": e, "scripts": n}));
}

enum Kind {
    Download { seg: &'static [u8], szx: Option<u8>, body: Vec<u8> },
    Upload { body: Vec<u8>, szx: u8 },
    Junk,
}
struct Client {
    ep: String,
    kind: Kind,
    typ: u64,
    n: usize,
    asm: Vec<u8>,
    b2: Option<(u16, u8)>,
    off: usize,
    done: bool,
    failed: bool,
    reply: Vec<u8>,
}

fn mk(typ: u64, code: u8, mid: u16, tok: Vec<u8>, seg: &[u8], b1: Option<(u16, bool, u8)>, b2: Option<(u16, bool, u8)>, pay: Vec<u8>) -> Vec<u8> {
    let mut p = Packet::new();
    p.header.set_type(num_type(typ));
    p.header.code = code.into();
    p.header.message_id = mid;
    p.set_token(tok);
    p.add_option(CoapOption::UriPath, seg.to_vec());
    if let Some((n, m, s)) = b2 {
        p.add_option(CoapOption::Block2, BlockValue { num: n, more: m, size_exponent: s }.into());
    }
    if let Some((n, m, s)) = b1 {
        p.add_option(CoapOption::Block1, BlockValue { num: n, more: m, size_exponent: s }.into());
    }
    p.payload = pay;
    p.to_bytes_unlimited().unwrap()
}

pub fn rec_server(args: &Args) {
    let seed = args.u("seed", 1);
    let thorough = args.thorough();
    let mut r = Rng::new(seed ^ 0x5E7);
    let mut out = Out::create(args.s("out"));
    let episodes = if thorough { 400 } else { 40 };
    for e in 0..episodes {
        let m = *r.pick(&[48usize, 64, 100, 300, 1152, 1280]);
        let mut h = new_handler(&mut out, m);
        let mut clients: Vec<Client> = vec![];
        let nc = r.range(2, 5) as usize;
        for i in 0..nc {
            let kind = match r.below(6) {
                0 | 1 => Kind::Download { seg: b"big", szx: if r.chance(1, 2) { Some(r.below(4) as u8) } else { None }, body: sbody(200, 3) },
                2 => Kind::Download { seg: if r.chance(1, 2) { b"sm" } else { b"e" }, szx: if r.chance(1, 2) { Some(0) } else { None }, body: vec![] },
                3 | 4 => {
                    let len = r.below(120) as usize;
                    Kind::Upload { body: body_bytes(len, e + i), szx: r.below(2) as u8 }
                }
                _ => Kind::Junk,
            };
            let b2 = match &kind { Kind::Download { szx: Some(s), .. } => Some((0u16, *s)), _ => None };
            // distinct endpoints, or the same endpoint on distinct resources
            clients.push(Client { ep: format!("c{}", i), kind, typ: r.below(2), n: 0, asm: vec![], b2, off: 0, done: false, failed: false, reply: vec![] });
        }
        // fix expected bodies for the small resources
        for c in clients.iter_mut() {
            if let Kind::Download { seg, body, .. } = &mut c.kind {
                if *seg == b"sm" { *body = b"ok".to_vec(); }
            }
        }
        let mut guard = 0;
        while clients.iter().any(|c| !c.done && !c.failed) && guard < 2000 {
            guard += 1;
            let live: Vec<usize> = (0..clients.len()).filter(|i| !clients[*i].done && !clients[*i].failed).collect();
            let i = *r.pick(&live);
            let c = &mut clients[i];
            let mid = (i as u16) * 1000 + c.n as u16;
            let tl = r.below(9) as usize;
            let tok = r.bytes(tl);
            match &c.kind {
                Kind::Download { seg, .. } => {
                    let dg = mk(c.typ, 1, mid, tok, seg, None, c.b2.map(|(n, s)| (n, false, s)), vec![]);
                    match ev_dgram(&mut out, &mut h, &c.ep, &dg).and_then(|b| Packet::from_bytes(&b).ok()) {
                        None => c.failed = true,
                        Some(p) => match p.get_first_option(CoapOption::Block2).and_then(|v| BlockValue::try_from(v.clone()).ok()) {
                            None => { c.asm = p.payload.clone(); c.done = true; }
                            Some(b) => {
                                if b.num as usize * b.size() != c.asm.len() { c.failed = true; }
                                c.asm.extend(&p.payload);
                                if b.more { c.b2 = Some((b.num + 1, b.size_exponent)); c.n += 1; } else { c.done = true; }
                            }
                        },
                    }
                }
                Kind::Upload { body, szx } => {
                    let sz = 16usize << szx;
                    let hi = (c.off + sz).min(body.len());
                    let more = hi < body.len();
                    let dg = mk(0, 3, mid, tok, b"st", Some(((c.off / sz) as u16, more, *szx)), None, body[c.off..hi].to_vec());
                    // occasionally deliver a non-final block twice in a row
                    let reps = if more && r.chance(1, 4) { 2 } else { 1 };
                    let mut last = None;
                    for _ in 0..reps {
                        last = ev_dgram(&mut out, &mut h, &c.ep, &dg).and_then(|b| Packet::from_bytes(&b).ok());
                    }
                    match last {
                        None => c.failed = true,
                        Some(p) => {
                            if more { if u8::from(p.header.code) != 0x5F { c.failed = true; } c.off = hi; c.n += 1; }
                            else { c.reply = p.payload.clone(); c.done = true; }
                        }
                    }
                }
                Kind::Junk => {
                    let dg: Vec<u8> = match r.below(5) {
                        0 => {
                            let l = r.below(4) as usize;
                            r.bytes(l)
                        }
                        1 => vec![0x49, 1, 0, 9, 1, 2, 3, 4, 5, 6, 7, 8, 9],
                        2 => mk(2, 0, 77, vec![], b"big", None, None, vec![]),
                        3 => vec![0x40, 1, 0, 5, 0xF0],
                        _ => { let mut g = mk(0, 1, 9, vec![1], b"big", None, Some((0, false, 0)), vec![]); let k = r.below(g.len() as u64) as usize; g[k] ^= 1 << r.below(8); g }
                    };
                    ev_dgram(&mut out, &mut h, &c.ep, &dg);
                    c.n += 1;
                    if c.n >= 4 { c.done = true; }
                }
            }
        }
        for c in &clients {
            match &c.kind {
                Kind::Download { body, .. } => out.ev(json!({"op": "e2e_dl", "ep": c.ep, "body": jbytes(body), "assembled": jbytes(&c.asm), "done": c.done && !c.failed})),
                Kind::Upload { body, .. } => out.ev(json!({"op": "e2e_ul", "ep": c.ep, "body": jbytes(body), "reply": jbytes(&c.reply), "done": c.done && !c.failed})),
                Kind::Junk => {}
            }
        }
    }
    let n = out.finish();
    println!("{}", json!({"events": n, "episodes": episodes}));
}

// ---- observe end to end (ObserveServer.tla) -------------------------------------------------------
use coap_lite::{create_notification, MessageType, ObserveOption, RequestType, ResponseType, Subject};
use std::collections::BTreeMap;

struct ObsSrv {
    subj: Subject<String>,
    vers: BTreeMap<String, u64>,
}

fn oval(p: &str, ver: u64) -> Vec<u8> {
    vec![(ver % 256) as u8, p.len() as u8]
}

fn ohandle(sv: &mut ObsSrv, ep: &str, dg: &[u8]) -> Option<Vec<u8>> {
    let pkt = Packet::from_bytes(dg).ok()?;
    let req = CoapRequest::from_packet(pkt, ep.to_string());
    if req.message.header.get_type() == MessageType::Acknowledgement {
        sv.subj.acknowledge(&req);
        return None;
    }
    let mut resp = req.response.clone()?;
    if *req.get_method() != RequestType::Get {
        resp.set_status(ResponseType::MethodNotAllowed);
        return resp.message.to_bytes_unlimited().ok();
    }
    let p = req.get_path();
    let flag = req.get_observe_flag();
    match flag {
        Some(Ok(ObserveOption::Register)) => sv.subj.register(&req),
        Some(Ok(ObserveOption::Deregister)) => sv.subj.deregister(&req),
        _ => {}
    }
    resp.message.payload = oval(&p, *sv.vers.get(&p).unwrap_or(&0));
    if let Some(Ok(ObserveOption::Register)) = flag {
        let seq = sv.subj.get_resource(&p).map(|r| r.sequence).unwrap_or(0);
        resp.message.set_observe_value(seq);
    }
    resp.message.to_bytes_unlimited().ok()
}

fn ochange(sv: &mut ObsSrv, p: &str, mid: u16, con: bool) -> Vec<(String, Vec<u8>)> {
    let ver = sv.vers.entry(p.to_string()).or_insert(0);
    *ver += 1;
    let ver = *ver;
    sv.subj.resource_changed(p, mid, con);
    let seq = sv.subj.get_resource(p).map(|r| r.sequence).unwrap_or(0);
    let mut out = vec![];
    if let Some(obs) = sv.subj.get_resource_observers(p) {
        for o in obs {
            let n = create_notification(mid, o.token.clone(), seq, oval(p, ver), con);
            out.push((o.endpoint.clone(), n.to_bytes_unlimited().unwrap_or_default()));
        }
    }
    out
}

fn run_observe_steps(out: &mut Out, steps: &[Value]) {
    out.ev(json!({"op": "reset"}));
    let mut sv = ObsSrv { subj: Subject::default(), vers: BTreeMap::new() };
    for st in steps {
        match st["op"].as_str().unwrap() {
            "limit" => {
                sv.subj.set_unacknowledged_limit(st["n"].as_u64().unwrap() as u8);
                out.ev(json!({"op": "limit", "n": st["n"]}));
            }
            "req" => {
                let dg = vbytes(&st["dg"]);
                let ep = st["ep"].as_str().unwrap();
                let r = guarded(|| ohandle(&mut sv, ep, &dg));
                let o = match &r { None => json!({"k": "panic"}), Some(None) => json!({"k": "none"}), Some(Some(b)) => json!({"k": "some", "bytes": jbytes(b)}) };
                out.ev(json!({"op": "oreq", "ep": ep, "in": jbytes(&dg), "out": o}));
            }
            _ => {
                let p = String::from_utf8(vbytes(&st["p"])).unwrap_or_default();
                let mid = st["mid"].as_u64().unwrap() as u16;
                let con = st["con"].as_bool().unwrap();
                let r = guarded(|| ochange(&mut sv, &p, mid, con));
                let o: Vec<Value> = r.as_ref().map(|v| v.iter().map(|(e, b)| json!({"ep": e, "dg": jbytes(b)})).collect()).unwrap_or_default();
                out.ev(json!({"op": "change", "p": st["p"], "mid": mid, "con": con, "panicked": r.is_none(), "out": o}));
            }
        }
    }
}

/// spec -> impl: behaviours of MC_ObserveServer
pub fn rec_observe_script(args: &Args) {
    let mut out = Out::create(args.s("out"));
    let mut n = 0u64;
    for v in read_vectors(args.s("in")) {
        n += 1;
        run_observe_steps(&mut out, v["steps"].as_array().unwrap());
    }
    let e = out.finish();
    println!("{}", json!({"events": e, "scripts": n}));
}

/// impl -> spec: seeded random observe sessions over datagrams
pub fn rec_observe_server(args: &Args) {
    let seed = args.u("seed", 1);
    let thorough = args.thorough();
    let mut r = Rng::new(seed ^ 0x0B5);
    let mut out = Out::create(args.s("out"));
    let paths: [&[&str]; 4] = [&["t"], &["t", "u"], &["a", "b", "c"], &[]];
    for _ in 0..(if thorough { 300 } else { 40 }) {
        let mut steps: Vec<Value> = vec![json!({"op": "limit", "n": *r.pick(&[0u64, 1, 2, 10])})];
        let mut mid = r.next() as u16;
        let mut last_mids: Vec<u16> = vec![];
        for _ in 0..r.range(10, 60) {
            let ep = format!("c{}", r.below(3));
            let segs = *r.pick(&paths);
            match r.below(10) {
                0 | 1 | 2 | 3 => {
                    let mut p = Packet::new();
                    p.header.set_type(num_type(r.below(2)));
                    p.header.code = (*r.pick(&[1u8, 1, 1, 2])).into();
                    p.header.message_id = r.next() as u16;
                    let tl = r.below(9) as usize;
                    p.set_token(r.bytes(tl));
                    match r.below(5) {
                        0 | 1 | 2 => p.add_option(CoapOption::Observe, vec![]),
                        3 => p.add_option(CoapOption::Observe, vec![1]),
                        _ => {}
                    }
                    if r.chance(1, 12) {
                        p.clear_option(CoapOption::Observe);
                        p.add_option(CoapOption::Observe, vec![9, 9]);
                    }
                    for s in segs {
                        p.add_option(CoapOption::UriPath, s.as_bytes().to_vec());
                    }
                    steps.push(json!({"op": "req", "ep": ep, "dg": jbytes(&p.to_bytes_unlimited().unwrap())}));
                }
                4 | 5 | 6 | 7 => {
                    mid = mid.wrapping_add(1);
                    last_mids.push(mid);
                    steps.push(json!({"op": "change", "p": jbytes(segs.join("/").as_bytes()), "mid": mid, "con": r.chance(2, 3)}));
                }
                _ => {
                    let m = if !last_mids.is_empty() && r.chance(3, 4) { *r.pick(&last_mids[last_mids.len().saturating_sub(3)..]) } else { r.next() as u16 };
                    let mut p = Packet::new();
                    p.header.set_type(MessageType::Acknowledgement);
                    p.header.code = 0u8.into();
                    p.header.message_id = m;
                    steps.push(json!({"op": "req", "ep": ep, "dg": jbytes(&p.to_bytes_unlimited().unwrap())}));
                }
            }
        }
        run_observe_steps(&mut out, &steps);
    }
    let n = out.finish();
    println!("{}", json!({"events": n}));
}
