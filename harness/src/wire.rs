//! RFC 7252 codec: replay of TLC-generated decode vectors, recorders for the trace specification.
use crate::util::*;
use coap_lite::{CoapOption, Packet};
use serde_json::{json, Value};
use std::collections::LinkedList;
use std::convert::TryFrom;

fn opts_eq(a: &Value, b: &Value) -> bool {
    a == b
}

pub fn out_from_bytes(b: &[u8]) -> (Value, Option<Packet>) {
    match guarded(|| Packet::from_bytes(b)) {
        None => (json!({"k": "panic"}), None),
        // (an error that cannot be shown is no better than a panic: both forms are produced here)
        Some(Err(e)) => match guarded(|| (format!("{:?}", e), e.to_string())) {
            Some((d, _)) => (json!({"k": "err", "e": d}), None),
            None => (json!({"k": "panic"}), None),
        },
        Some(Ok(p)) => (json!({"k": "ok", "msg": jpkt(&p)}), Some(p)),
    }
}

pub fn out_to_bytes(p: &Packet, limit: Option<Option<usize>>) -> Value {
    // limit: None = to_bytes(), Some(None) = unlimited, Some(Some(l)) = with_limit(l)
    let r = guarded(|| match limit {
        None => p.to_bytes(),
        Some(None) => p.to_bytes_unlimited(),
        Some(Some(l)) => p.to_bytes_with_limit(l),
    });
    match r {
        None => json!({"k": "panic"}),
        Some(Err(e)) => match guarded(|| (format!("{:?}", e), e.to_string())) {
            Some((d, _)) => json!({"k": "err", "e": d}),
            None => json!({"k": "panic"}),
        },
        Some(Ok(b)) => json!({"k": "ok", "bytes": jbytes(&b)}),
    }
}

/// spec -> impl: vectors {b, verdict, msg, canon} from MC_WireBytes.
pub fn replay_wire(args: &Args) {
    let mut rep = Report::default();
    for v in read_vectors(args.s("in")) {
        rep.evaluated += 1;
        let b = vbytes(&v["b"]);
        let verdict = v["verdict"].as_str().unwrap();
        let (out, pkt) = out_from_bytes(&b);
        rep.count(&format!("{}:{}", verdict, out["k"].as_str().unwrap()));
        let case = json!({"b": v["b"], "verdict": verdict, "expected": v["msg"], "canon": v["canon"], "got": out});
        match out["k"].as_str().unwrap() {
            "panic" => rep.bad("C03", "from_bytes panicked", case),
            "err" => {
                if verdict == "must_accept" {
                    rep.bad("C03", "well-formed datagram rejected", case)
                }
            }
            _ => {
                if verdict == "must_reject" {
                    rep.bad("C03", "malformed datagram accepted", case);
                    // C02 speaks about every accepted datagram: it must still re-encode to itself
                    let re = out_to_bytes(pkt.as_ref().unwrap(), Some(None));
                    if re["k"] != "ok" || re["bytes"] != v["b"] {
                        rep.bad("C02", "accepted (malformed) datagram does not re-encode to itself", json!({"b": v["b"], "re": re}));
                    }
                    continue;
                }
                let got = &out["msg"];
                let exp = &v["msg"];
                let code0 = exp["code"].as_u64() == Some(0);
                let same = got["ver"] == exp["ver"]
                    && got["typ"] == exp["typ"]
                    && got["code"] == exp["code"]
                    && got["mid"] == exp["mid"]
                    && got["tok"] == exp["tok"]
                    && opts_eq(&got["opts"], &exp["opts"])
                    && (got["pay"] == exp["pay"] || (code0 && got["pay"].as_array().map(|a| a.is_empty()).unwrap_or(false)));
                if !same {
                    rep.bad("C03", "accepted with fields other than the grammar defines", case.clone());
                }
                let re = out_to_bytes(pkt.as_ref().unwrap(), Some(None));
                if re["k"] != "ok" || re["bytes"] != v["canon"] {
                    rep.bad("C02", "re-encoding differs from the canonical input", json!({"b": v["b"], "canon": v["canon"], "re": re}));
                }
                rep.sample(json!({"b": v["b"], "verdict": verdict, "decoded": got, "reencoded": re}));
            }
        }
    }
    rep.write(args.s("out"));
}

// ---------------------------------------------------------------------------------------------
// recorders
// ---------------------------------------------------------------------------------------------

#[allow(dead_code)]
fn _unused() {}

fn ev_from_bytes(out: &mut Out, b: &[u8]) {
    let (o, pkt) = out_from_bytes(b);
    let re = match &pkt {
        Some(p) => out_to_bytes(p, Some(None)),
        None => json!({"k": "na"}),
    };
    out.ev(json!({"op": "from_bytes", "in": jbytes(b), "out": o, "re": re}));
}

/// The relation C02 itself states, evaluated natively (no oracle): used only to decide which
/// inputs of a large sweep are forwarded to TLC.  Returns true when the input is unremarkable.
fn unremarkable(b: &[u8]) -> bool {
    match guarded(|| Packet::from_bytes(b)) {
        None => false,
        Some(Err(_)) => true,
        Some(Ok(p)) => match guarded(|| p.to_bytes_unlimited()) {
            Some(Ok(r)) => {
                r == b
                    || (b.last() == Some(&0xFF) && r[..] == b[..b.len() - 1])
                    || (b[1] == 0 && b.starts_with(&r) && b.get(r.len()) == Some(&0xFF))
            }
            _ => false,
        },
    }
}

pub const HEADERS: &[&[u8]] = &[
    &[0x40, 1, 0x12, 0x34],
    &[0x41, 1, 0, 0, 0xAA],
    &[0x48, 2, 0xFF, 0xFF, 1, 2, 3, 4, 5, 6, 7, 8],
    &[0x49, 1, 0, 1, 1, 2, 3, 4, 5, 6, 7, 8, 9],
    &[0x4F, 1, 0, 1],
    &[0x40, 0, 0, 7],
    &[0x00, 1, 0, 2],
    &[0xD0, 0x45, 0x80, 0],
    &[0x60, 0x45, 0xAB, 0xCD],
    &[0x42, 1, 0, 3, 9],
];

pub fn random_message(r: &mut Rng, max_opts: usize, max_val: usize, max_pay: usize) -> Packet {
    let mut p = Packet::new();
    p.header.set_version(if r.chance(3, 4) { 1 } else { r.below(4) as u8 });
    p.header.set_type(num_type(r.below(4)));
    p.header.code = (*r.pick(&[0u8, 1, 2, 3, 4, 0x45, 0x44, 0x84, 0x5F, 0xA0, 0xFF, 0x21])).into();
    if r.chance(1, 4) {
        p.header.code = (r.next() as u8).into();
    }
    p.header.message_id = r.next() as u16;
    let tl = r.below(9) as usize;
    p.set_token(r.bytes(tl));
    let nopt = r.below(max_opts as u64 + 1);
    for _ in 0..nopt {
        let num: u16 = if r.chance(1, 2) {
            *r.pick(&[0u16, 1, 3, 4, 6, 7, 11, 12, 13, 14, 15, 17, 23, 27, 28, 35, 39, 60, 255, 256, 258, 268, 269, 270, 281, 282, 1000, 65000, 65535])
        } else {
            r.next() as u16
        };
        let vl = if r.chance(1, 3) { *r.pick(&[0usize, 1, 12, 13, 14, 255, 268, 269, 270, 300]) } else { r.below(max_val as u64 + 1) as usize };
        p.add_option(CoapOption::from(num), r.bytes(vl.min(max_val.max(300))));
        // runs of values under one number, lengths from every header class (anything the serialiser or
        // the parser carries over from one value to the next shows only here)
        if r.chance(1, 3) {
            for _ in 0..r.range(1, 3) {
                // (bounded by the caller's value size: every prefix and corruption of these messages is
                // recorded, which is quadratic in their length; the long classes are in the hand-encoded family)
                let vl = *r.pick(&[0usize, 1, 12, 13, 14, 20, 30, 255, 268, 269, 270, 300]);
                p.add_option(CoapOption::from(num), r.bytes(vl.min(max_val * 4 + 16)));
            }
        }
    }
    let pl = if r.chance(1, 3) { 0 } else { r.below(max_pay as u64 + 1) as usize };
    p.payload = r.bytes(pl);
    p
}

pub fn rec_wire_bytes(args: &Args) {
    let seed = args.u("seed", 1);
    let thorough = args.thorough();
    let mut r = Rng::new(seed);
    let mut out = Out::create(args.s("out"));
    let mut swept: u64 = 0;
    let mut forwarded: u64 = 0;

    // (a) well-formed messages, every prefix, single-byte corruptions
    let nmsg = if thorough { 200 } else { 60 };
    for _ in 0..nmsg {
        let p = random_message(&mut r, 5, 20, 12);
        if let Ok(b) = p.to_bytes_unlimited() {
            ev_from_bytes(&mut out, &b);
            for k in 0..b.len() {
                ev_from_bytes(&mut out, &b[..k]);
            }
            for k in 0..b.len() {
                let mut c = b.clone();
                c[k] = *r.pick(&[0u8, 0x0D, 0x0E, 0x0F, 0xD0, 0xE0, 0xF0, 0xFF, 0xDD, 0xEE, 0x49, 0x4F]);
                ev_from_bytes(&mut out, &c);
                let mut c = b.clone();
                c[k] ^= 1 << r.below(8);
                ev_from_bytes(&mut out, &c);
            }
        }
    }
    // (a2) datagrams encoded by hand (independent of the serialiser under test): runs of values under one
    // or two option numbers, first delta and every length drawn from the header classes
    let lens = [0usize, 1, 12, 13, 14, 20, 30, 268, 269, 270, 300, 600];
    let deltas = [0u32, 1, 12, 13, 14, 268, 269, 270, 1000, 60000];
    fn push_hdr(b: &mut Vec<u8>, delta: u32, len: usize) {
        let nib = |x: u32| if x < 13 { x as u8 } else if x < 269 { 13 } else { 14 };
        b.push(nib(delta) << 4 | nib(len as u32));
        for x in [delta, len as u32] {
            if (13..269).contains(&x) {
                b.push((x - 13) as u8);
            } else if x >= 269 {
                b.extend(((x - 269) as u16).to_be_bytes());
            }
        }
    }
    for _ in 0..(if thorough { 1000 } else { 300 }) {
        let mut b = r.pick(&HEADERS[..4]).to_vec();
        let mut total: u32 = 0;
        for g in 0..r.range(1, 2) {
            let d = if g == 0 { *r.pick(&deltas) } else { *r.pick(&deltas[1..9]) };
            if total + d > 65535 {
                break;
            }
            total += d;
            for k in 0..r.range(1, 5) {
                let l = *r.pick(&lens);
                push_hdr(&mut b, if k == 0 { d } else { 0 }, l);
                b.extend(r.bytes(l));
            }
        }
        if r.chance(1, 2) {
            b.push(0xFF);
            let n = r.range(1, 5) as usize;
            b.extend(r.bytes(n));
        }
        ev_from_bytes(&mut out, &b);
    }
    // (a3) every option number the crate knows by name (and a few it does not), each with values shaped
    // like the typed readings of that option might care about: leading zeros, over-long, empty.  The codec
    // is generic: nothing in it may depend on which option a value belongs to.
    let mut numbers: Vec<u16> = crate::registry::ALL_OPTIONS.iter().map(|o| u16::from(*o)).collect();
    numbers.extend([0u16, 2, 9, 10, 16, 21, 36, 100, 2048, 65000]);
    for &n in &numbers {
        for zeros in 0..6usize {
            for x in [None, Some(0u8), Some(1), Some(50), Some(255)] {
                if thorough || (zeros + n as usize + x.unwrap_or(7) as usize) % 3 == 0 || n == 6 || n == 12 || n == 17 || n == 23 || n == 27 {
                    let mut v = vec![0u8; zeros];
                    if let Some(x) = x {
                        v.push(x);
                    }
                    let mut b = HEADERS[(n as usize + zeros) % 4].to_vec();
                    push_hdr(&mut b, n as u32, v.len());
                    b.extend(&v);
                    if zeros % 2 == 1 {
                        // a second value of the same option, then one of a later option
                        push_hdr(&mut b, 0, 2);
                        b.extend([0, 7]);
                        push_hdr(&mut b, 5, 1);
                        b.push(9);
                    }
                    if x == Some(1) {
                        b.extend([0xFF, 0x21]);
                    }
                    ev_from_bytes(&mut out, &b);
                }
            }
        }
    }
    // (a4) large datagrams, encoded by hand: 300 values under one number, 300 numbers, the longest value a
    // datagram can carry (65535 + 269 bytes), a payload above 64 KiB, and the longest value cut short
    {
        let mut b = HEADERS[1].to_vec();
        for i in 0..300usize {
            push_hdr(&mut b, if i == 0 { 15 } else { 0 }, i % 3);
            b.extend(vec![(i % 251) as u8; i % 3]);
        }
        ev_from_bytes(&mut out, &b);
        let mut b = HEADERS[0].to_vec();
        for i in 0..300usize {
            push_hdr(&mut b, if i % 50 == 49 { 300 } else { 7 }, 1);
            b.push(i as u8);
        }
        b.extend([0xFF, 1, 2, 3]);
        ev_from_bytes(&mut out, &b);
        // more options than a size-limited message could hold (the parser has no such limit): 1 276 .. 3 000
        // one-byte options (TLC's reference decoder is quadratic in the number of options: no more than that), then a real option, the marker and a payload
        for n in [1276usize, 1277, 1500, 3000] {
            let mut b = HEADERS[0].to_vec();
            b.push(0x10);
            b.extend(std::iter::repeat(0x00u8).take(n - 1));
            b.extend([0xC2, 0x01, 0x02, 0xFF, 0x33, 0x44]);
            ev_from_bytes(&mut out, &b);
        }
        let mut b = HEADERS[2].to_vec();
        push_hdr(&mut b, 2000, 65535 + 269);
        b.extend(r.bytes(65535 + 269));
        ev_from_bytes(&mut out, &b);
        ev_from_bytes(&mut out, &b[..b.len() - 1]);
        b.extend([0xFF, 9]);
        ev_from_bytes(&mut out, &b);
        let mut b = HEADERS[0].to_vec();
        b.extend([0x11, 0x22, 0xFF]);
        b.extend(r.bytes(70_000));
        ev_from_bytes(&mut out, &b);
    }
    // (b) random strings
    for _ in 0..(if thorough { 20000 } else { 2000 }) {
        let n = r.below(40) as usize;
        let mut b = r.bytes(n);
        if n >= 1 && r.chance(3, 4) {
            b[0] = (b[0] & 0xF0) | (r.below(9) as u8);
        }
        ev_from_bytes(&mut out, &b);
    }
    // (c) directed: every option header byte with boundary extension values, truncation points
    let base: &[u8] = &[0x40, 1, 0, 1];
    for hb in 0..=255u8 {
        let dn = hb >> 4;
        let ln = hb & 15;
        let dexts: Vec<Vec<u8>> = match dn {
            13 => vec![vec![0], vec![1], vec![242], vec![243], vec![255]],
            14 => vec![vec![0, 0], vec![0, 1], vec![254, 242], vec![254, 243], vec![255, 255], vec![1, 0]],
            _ => vec![vec![]],
        };
        let lexts: Vec<Vec<u8>> = match ln {
            13 => vec![vec![0], vec![1], vec![242], vec![243], vec![255]],
            14 => vec![vec![0, 0], vec![0, 1], vec![0, 40], vec![254, 242], vec![254, 243], vec![255, 255]],
            _ => vec![vec![]],
        };
        for de in &dexts {
            for le in &lexts {
                let vlen: usize = match ln {
                    13 => le[0] as usize + 13,
                    14 => ((le[0] as usize) << 8 | le[1] as usize) + 269,
                    15 => 0,
                    n => n as usize,
                };
                let mut b = base.to_vec();
                b.push(hb);
                b.extend(de);
                b.extend(le);
                let hdr_end = b.len();
                if vlen <= 600 {
                    b.extend((0..vlen).map(|i| (i * 7 + 1) as u8));
                    ev_from_bytes(&mut out, &b);
                    // truncations inside extension bytes and value
                    for cut in 5..b.len().min(hdr_end + 2) {
                        ev_from_bytes(&mut out, &b[..cut]);
                    }
                    if b.len() > hdr_end {
                        ev_from_bytes(&mut out, &b[..b.len() - 1]);
                    }
                    // followed by a second option and a payload
                    let mut c = b.clone();
                    c.extend([0x11, 0x55, 0xFF, 0x01]);
                    ev_from_bytes(&mut out, &c);
                    // followed by an option that pushes the running number to / past 65535
                    let mut c = b.clone();
                    c.extend([0xE0, 0xFE, 0xF2]);
                    ev_from_bytes(&mut out, &c);
                } else if de.len() + le.len() <= 4 && hb % 16 == 14 && (dn == 0 || dn == 13) {
                    b.extend((0..vlen).map(|i| (i * 7 + 1) as u8));
                    ev_from_bytes(&mut out, &b);
                    ev_from_bytes(&mut out, &b[..b.len() - 1]);
                }
            }
        }
    }
    // running sums 65535 / 65536 / beyond, in two and three steps
    for (d1, d2) in [(65535u32, 0u32), (65534, 1), (65534, 2), (65000, 535), (65000, 536), (40000, 30000), (269, 65266), (269, 65267), (13, 65535 - 13), (13, 65535 - 12)] {
        let mut b = base.to_vec();
        for d in [d1, d2] {
            if d <= 12 {
                b.push((d as u8) << 4);
            } else if d < 269 {
                b.push(0xD0);
                b.push((d - 13) as u8);
            } else {
                b.push(0xE0);
                b.extend(((d - 269) as u16).to_be_bytes());
            }
        }
        ev_from_bytes(&mut out, &b);
    }
    // (c2) every first header byte with every code byte, on datagrams that end right after the token (and,
    // when the token length is valid, with one option and a payload as well): the parser judges neither the
    // version, nor the type, nor the code.  Native sweep; whatever is rejected, panics or does not round-trip
    // is forwarded to TLC, and so is a sample of the rest.
    for b0 in 0..=255u8 {
        for code in 0..=255u8 {
            let tkl = (b0 & 15) as usize;
            let mut b = vec![b0, code, 0x12, 0x34];
            b.extend((0..tkl.min(8)).map(|i| 0xA0 + i as u8));
            if tkl > 8 && code % 16 == 1 {
                // reserved token lengths with exactly that many bytes after the header (and one more / fewer)
                for extra in [tkl - 9, tkl - 8, tkl - 7] {
                    let mut d = b.clone();
                    d.extend((0..extra).map(|i| 0xB0 + i as u8));
                    swept += 1;
                    forwarded += 1;
                    ev_from_bytes(&mut out, &d);
                }
            }
            for tail in [&[][..], &[0x11, 0x22, 0xFF, 0x33][..]] {
                let mut d = b.clone();
                d.extend(tail);
                swept += 1;
                let rejected = !matches!(guarded(|| Packet::from_bytes(&d)), Some(Ok(_)));
                let sample = (b0 as usize * 256 + code as usize) % 211 == 0;
                if rejected || sample || !unremarkable(&d) {
                    forwarded += 1;
                    ev_from_bytes(&mut out, &d);
                }
            }
        }
    }
    // (d) native sweep with anomaly forwarding: all suffixes of <= 2 (quick) / <= 3 (thorough) bytes
    let depth = if thorough { 3 } else { 2 };
    for h in HEADERS {
        let mut buf = h.to_vec();
        let hl = buf.len();
        let total: u64 = (0..=depth).map(|d| 256u64.pow(d)).sum();
        let mut idx: u64 = 0;
        for d in 0..=depth {
            buf.truncate(hl);
            buf.resize(hl + d as usize, 0);
            for x in 0..256u64.pow(d) {
                for k in 0..d as usize {
                    buf[hl + k] = (x >> (8 * (d as usize - 1 - k))) as u8;
                }
                swept += 1;
                idx += 1;
                let sample = (idx.wrapping_mul(2654435761) % total) < (if thorough { 3000 } else { 600 });
                if sample || !unremarkable(&buf) {
                    forwarded += 1;
                    ev_from_bytes(&mut out, &buf);
                }
            }
        }
    }
    let n = out.finish();
    println!("{}", json!({"events": n, "swept_native": swept, "forwarded": forwarded}));
}

// ---- builder sequences (C01) ----------------------------------------------------------------

fn jcall(f: &str, a: Value) -> Value {
    json!({"f": f, "a": a})
}

fn apply_call(p: &mut Packet, c: &Value) {
    let a = &c["a"];
    match c["f"].as_str().unwrap() {
        "set_version" => p.header.set_version(a["v"].as_u64().unwrap() as u8),
        "set_type" => p.header.set_type(num_type(a["v"].as_u64().unwrap())),
        "set_code" => p.header.code = (a["v"].as_u64().unwrap() as u8).into(),
        "set_mid" => p.header.message_id = a["v"].as_u64().unwrap() as u16,
        "set_token" => p.set_token(vbytes(&a["v"])),
        "set_payload" => p.payload = vbytes(&a["v"]),
        "add_option" => p.add_option(CoapOption::from(a["num"].as_u64().unwrap() as u16), vbytes(&a["v"])),
        "set_option" => {
            let mut l = LinkedList::new();
            for x in a["vs"].as_array().unwrap() {
                l.push_back(vbytes(x));
            }
            p.set_option(CoapOption::from(a["num"].as_u64().unwrap() as u16), l)
        }
        "clear_option" => p.clear_option(CoapOption::from(a["num"].as_u64().unwrap() as u16)),
        "clear_all_options" => p.clear_all_options(),
        "set_tkl" => p.header.set_token_length(a["n"].as_u64().unwrap() as u8),
        "replace_header_raw" => {
            // a whole new header as it comes: its token-length nibble may disagree with the stored token
            let mid = a["mid"].as_u64().unwrap() as u16;
            let raw = coap_lite::HeaderRaw::try_from(&[a["b"].as_u64().unwrap() as u8, a["code"].as_u64().unwrap() as u8, (mid >> 8) as u8, mid as u8][..]).unwrap();
            p.header = coap_lite::Header::from_raw(&raw);
        }
        "replace_header" => {
            // a whole new header (from raw bytes) whose token-length nibble matches the stored token
            let b = (a["b"].as_u64().unwrap() as u8 & 0xF0) | p.get_token().len() as u8;
            let mid = a["mid"].as_u64().unwrap() as u16;
            let raw = coap_lite::HeaderRaw::try_from(&[b, a["code"].as_u64().unwrap() as u8, (mid >> 8) as u8, mid as u8][..]).unwrap();
            p.header = coap_lite::Header::from_raw(&raw);
        }
        other => tool_error(&format!("unknown builder call {}", other)),
    }
}

fn ev_call(out: &mut Out, p: &mut Packet, c: Value) {
    let ok = guarded(|| apply_call(p, &c)).is_some();
    let enc = out_to_bytes(p, Some(None));
    let dec = if enc["k"] == "ok" { out_from_bytes(&vbytes(&enc["bytes"])).0 } else { json!({"k": "na"}) };
    out.ev(json!({"op": "call", "f": c["f"], "a": c["a"], "panicked": !ok, "st": jpkt(p), "enc": enc, "dec": dec}));
}

const NUMS: &[u16] = &[0, 1, 4, 11, 12, 13, 14, 23, 27, 60, 255, 256, 258, 268, 269, 270, 281, 282, 283, 1000, 65000, 65535];
const LENS: &[usize] = &[0, 1, 2, 12, 13, 14, 255, 268, 269, 270, 300];

fn random_call(r: &mut Rng) -> Value {
    let num = if r.chance(3, 4) { *r.pick(NUMS) } else { r.next() as u16 };
    let vl = if r.chance(1, 2) { *r.pick(LENS) } else { r.below(20) as usize };
    match r.below(14) {
        0 => jcall("set_version", json!({"v": r.below(4)})),
        1 => jcall("set_type", json!({"v": r.below(4)})),
        2 => jcall("set_code", json!({"v": *r.pick(&[0u8, 1, 2, 0x45, 0x84, 0xFF, 0x20, 0x9d])})),
        3 => jcall("set_mid", json!({"v": *r.pick(&[0u16, 1, 255, 256, 0x1234, 0xFFFF])})),
        4 => {
            let n = r.below(9) as usize;
            jcall("set_token", json!({"v": jbytes(&r.bytes(n))}))
        }
        5 => {
            let n = *r.pick(&[0usize, 0, 1, 2, 5, 40]);
            jcall("set_payload", json!({"v": jbytes(&r.bytes(n))}))
        }
        6 | 7 | 8 | 9 => jcall("add_option", json!({"num": num, "v": jbytes(&r.bytes(vl))})),
        10 => {
            let k = r.below(3);
            let vs: Vec<Value> = (0..k).map(|_| { let n = r.below(15) as usize; jbytes(&r.bytes(n)) }).collect();
            jcall("set_option", json!({"num": num, "vs": vs}))
        }
        11 => jcall("clear_option", json!({"num": num})),
        12 => {
            if r.chance(1, 2) {
                jcall("clear_option", json!({"num": num}))
            } else {
                jcall("replace_header", json!({"b": (r.below(16) as u8) << 4, "code": *r.pick(&[0u8, 1, 0x45, 0xFF]), "mid": r.next() as u16}))
            }
        }
        _ => jcall("clear_all_options", json!({})),
    }
}

pub fn rec_wire_build(args: &Args) {
    let seed = args.u("seed", 1);
    let thorough = args.thorough();
    let mut r = Rng::new(seed ^ 0xC01);
    let mut out = Out::create(args.s("out"));
    let episodes = if thorough { 6000 } else { 400 };
    for _ in 0..episodes {
        out.ev(json!({"op": "reset"}));
        let mut p = Packet::new();
        let n = r.range(1, 12);
        for _ in 0..n {
            let c = random_call(&mut r);
            ev_call(&mut out, &mut p, c);
        }
    }
    // messages at the default size limit, reached by payload or by options, with and without builder
    // history that leaves nothing on the wire: to_bytes() must produce the image of everything that fits
    for k in 0..(if thorough { 120 } else { 24 }) {
        let target = Packet::MAX_SIZE - 2 + (k % 4);
        if let Some(p) = sized_message(&mut r, target, k % 8 < 4) {
            ev_to_bytes(&mut out, &p, None);
            ev_to_bytes(&mut out, &p, Some(None));
        }
    }
    hdr_ser_events(&mut out);
    // large messages through the unlimited entry point, and what the parser makes of the bytes
    for p in large_messages(&mut r).iter() {
        ev_to_bytes(&mut out, p, Some(None));
    }
    // set_option / add_option lists with empty values between non-empty ones
    for _ in 0..(if thorough { 200 } else { 30 }) {
        out.ev(json!({"op": "reset"}));
        let mut p = Packet::new();
        let num = *r.pick(&[0u16, 8, 11, 15, 300]);
        let mut vs: Vec<Value> = vec![];
        for i in 0..r.range(2, 5) {
            if (i + r.below(2)) % 2 == 0 {
                vs.push(json!([]));
            } else {
                let n = 1 + r.below(3) as usize;
                vs.push(jbytes(&r.bytes(n)));
            }
        }
        ev_call(&mut out, &mut p, jcall("set_option", json!({"num": num, "vs": vs})));
        ev_call(&mut out, &mut p, jcall("add_option", json!({"num": num, "v": []})));
        ev_call(&mut out, &mut p, jcall("add_option", json!({"num": num + 1, "v": [7]})));
    }
    // the header edited / replaced behind set_token's back, then set_token again (same and different values)
    for k in 0..(if thorough { 400 } else { 60 }) {
        out.ev(json!({"op": "reset"}));
        let mut p = Packet::new();
        let tl = r.below(9) as usize;
        let tok = r.bytes(tl);
        ev_call(&mut out, &mut p, jcall("set_token", json!({"v": jbytes(&tok)})));
        if r.chance(1, 2) {
            ev_call(&mut out, &mut p, jcall("add_option", json!({"num": 11, "v": [97]})));
        }
        if k % 2 == 0 {
            ev_call(&mut out, &mut p, jcall("set_tkl", json!({"n": r.below(9)})));
        } else {
            ev_call(&mut out, &mut p, jcall("replace_header_raw", json!({"b": r.next() as u8, "code": *r.pick(&[1u8, 0x45, 0]), "mid": r.next() as u16})));
        }
        // the same token again (must re-synchronise the header), or another one
        let again = if r.chance(2, 3) { tok.clone() } else { let n = r.below(9) as usize; r.bytes(n) };
        ev_call(&mut out, &mut p, jcall("set_token", json!({"v": jbytes(&again)})));
        ev_call(&mut out, &mut p, jcall("set_payload", json!({"v": [1, 2]})));
    }
    // directed: deltas that make each extension byte 242/243/255, No-Response first, long values
    let directed: Vec<Vec<Value>> = vec![
        vec![jcall("add_option", json!({"num": 258, "v": [26]}))],
        vec![jcall("add_option", json!({"num": 255, "v": []})), jcall("add_option", json!({"num": 256, "v": []})), jcall("add_option", json!({"num": 268, "v": [1]}))],
        vec![jcall("add_option", json!({"num": 13 + 242, "v": [1]})), jcall("add_option", json!({"num": 13 + 243, "v": [2]})), jcall("add_option", json!({"num": 13 + 255, "v": [3]}))],
        vec![jcall("add_option", json!({"num": 12, "v": [1]})), jcall("add_option", json!({"num": 12 + 13 + 243, "v": [2]}))],
        vec![jcall("add_option", json!({"num": 65535, "v": [9]})), jcall("add_option", json!({"num": 0, "v": [8]})), jcall("set_payload", json!({"v": [255]}))],
        vec![jcall("add_option", json!({"num": 65535 - 269 + 269, "v": []})), jcall("add_option", json!({"num": 269, "v": []})), jcall("add_option", json!({"num": 268, "v": []}))],
        vec![jcall("add_option", json!({"num": 4, "v": [1]})), jcall("clear_option", json!({"num": 4})), jcall("add_option", json!({"num": 11, "v": [2]})), jcall("add_option", json!({"num": 4, "v": [3]})), jcall("clear_option", json!({"num": 11}))],
        vec![jcall("set_code", json!({"v": 0})), jcall("set_payload", json!({"v": [1, 2, 3]})), jcall("add_option", json!({"num": 1, "v": [7]})), jcall("set_code", json!({"v": 1}))],
    ];
    for seq in directed {
        out.ev(json!({"op": "reset"}));
        let mut p = Packet::new();
        for c in seq {
            ev_call(&mut out, &mut p, c);
        }
    }
    for vl in [65535usize, 65535 + 268, 65535 + 269] {
        out.ev(json!({"op": "reset"}));
        let mut p = Packet::new();
        let v: Vec<u8> = (0..vl).map(|i| (i % 251) as u8).collect();
        ev_call(&mut out, &mut p, jcall("add_option", json!({"num": 300, "v": jbytes(&v)})));
    }
    let n = out.finish();
    println!("{}", json!({"events": n, "episodes": episodes}));
}

/// spec -> impl: every transition of MC_Message: {h, st, bytes, wirelen}.
pub fn replay_build(args: &Args) {
    let mut rep = Report::default();
    for v in read_vectors(args.s("in")) {
        rep.evaluated += 1;
        let mut p = Packet::new();
        let mut panicked = false;
        for c in v["h"].as_array().unwrap() {
            if guarded(|| apply_call(&mut p, c)).is_none() {
                panicked = true;
            }
        }
        let got = jpkt(&p);
        let st = &v["st"];
        let case = |extra: Value| json!({"h": v["h"], "expected_state": st, "got_state": got, "expected_bytes": v["bytes"], "got": extra});
        if panicked {
            rep.bad("C01", "builder call panicked", case(json!(null)));
            continue;
        }
        let same = ["ver", "typ", "code", "mid", "tok", "opts", "pay"].iter().all(|k| got[*k] == st[*k])
            && got["tkl"].as_u64() == st["tok"].as_array().map(|a| a.len() as u64);
        if !same {
            rep.bad("C01", "getters differ from the specified state", case(json!(null)));
            continue;
        }
        let enc = out_to_bytes(&p, Some(None));
        if enc["k"] != "ok" || enc["bytes"] != v["bytes"] {
            rep.bad("C01", "encoding differs from the RFC 7252 wire image", case(enc.clone()));
            continue;
        }
        let wl = v["wirelen"].as_u64().unwrap() as usize;
        // C04: the limit rule at wirelen-1 / wirelen / wirelen+1
        for (l, want_ok) in [(wl.wrapping_sub(1), false), (wl, true), (wl + 1, true)] {
            if l == usize::MAX {
                continue;
            }
            let o = out_to_bytes(&p, Some(Some(l)));
            let ok = o["k"] == "ok" && o["bytes"] == v["bytes"];
            let err = o["k"] == "err" && o["e"] == "InvalidPacketLength";
            if (want_ok && !ok) || (!want_ok && !err) {
                rep.bad("C04", "size limit not enforced exactly", json!({"h": v["h"], "wirelen": wl, "limit": l, "got": o}));
            }
        }
        // decode the real bytes: same fields, options without empty entries, no payload when code 0
        let (dec, _) = out_from_bytes(&vbytes(&enc["bytes"]));
        let mut norm = st.clone();
        let opts: Vec<Value> = st["opts"].as_array().unwrap().iter().filter(|e| !e[1].as_array().unwrap().is_empty()).cloned().collect();
        norm["opts"] = Value::Array(opts);
        if st["code"].as_u64() == Some(0) {
            norm["pay"] = json!([]);
        }
        let dsame = dec["k"] == "ok" && ["ver", "typ", "code", "mid", "tok", "opts", "pay"].iter().all(|k| dec["msg"][*k] == norm[*k]);
        if !dsame {
            rep.bad("C01", "decoding the encoded message does not return it", case(dec.clone()));
        }
        rep.sample(json!({"calls": v["h"], "bytes": enc["bytes"]}));
    }
    rep.write(args.s("out"));
}

// ---- limits (C04) ---------------------------------------------------------------------------

fn ev_to_bytes(out: &mut Out, p: &Packet, limit: Option<Option<usize>>) {
    crate::hooks::copy_log_start();
    let o = out_to_bytes(p, limit);
    let copies = crate::hooks::copy_log_take();
    let (some, v, api) = match limit {
        None => (true, Packet::MAX_SIZE, "to_bytes"),
        Some(None) => (false, 0, "to_bytes_unlimited"),
        Some(Some(l)) => (true, l, "to_bytes_with_limit"),
    };
    // limits beyond TLC's integers are recorded as the largest one it has (same meaning: far above any
    // message length here)
    let v = v.min(i32::MAX as usize);
    out.ev(json!({"op": "to_bytes", "api": api, "msg": jpkt(p), "limit": {"some": some, "v": v}, "out": o, "copies": copies}));
}

/// message whose wire length is exactly `target` (>= 4), reached by payload or by options
fn sized_message(r: &mut Rng, target: usize, by_options: bool) -> Option<Packet> {
    let mut p = Packet::new();
    p.header.code = 0x02.into();
    let tl = r.below(9) as usize;
    if 4 + tl > target {
        p.set_token(vec![]);
    } else {
        p.set_token(r.bytes(tl));
    }
    let mut len = 4 + p.get_token().len();
    if by_options {
        // Uri-Path segments of 255 bytes (3 header bytes each), then one filler, no payload
        while target >= len + 3 + 255 + 3 {
            p.add_option(CoapOption::UriPath, r.bytes(255));
            len += 1 + 1 + 255;
            if len + 300 > target {
                break;
            }
        }
        let rest = target.checked_sub(len)?;
        // one more option of total encoded size `rest`
        let vl = if rest == 0 { return Some(p) } else if rest <= 13 { rest - 1 } else if rest <= 14 { return None } else if rest <= 270 { rest - 2 } else if rest == 271 { return None } else { rest - 3 };
        let delta0 = p.get_option(CoapOption::UriPath).is_none();
        let _ = delta0;
        p.add_option(CoapOption::UriPath, r.bytes(vl));
        // header size depends on delta too: Uri-Path (11) first has delta 11 (nibble), later delta 0
    } else {
        if r.chance(1, 2) {
            let n = r.below(3);
            for _ in 0..n {
                let l = r.below(14) as usize;
                p.add_option(CoapOption::from(*r.pick(&[4u16, 11, 15, 300])), r.bytes(l));
            }
        }
        let base = guarded(|| p.to_bytes_unlimited())?.ok()?.len();
        let rest = target.checked_sub(base)?;
        if rest == 1 {
            return None;
        }
        if rest > 0 {
            p.payload = r.bytes(rest - 1);
        }
    }
    // builder history that leaves no byte on the wire: options added and cleared again, options set to
    // an empty list (the entries stay in the map with no value)
    if r.chance(1, 2) {
        for _ in 0..r.range(1, 3) {
            let n = CoapOption::from(*r.pick(&[1u16, 5, 8, 20, 35, 2000]));
            if r.chance(1, 2) {
                p.add_option(n, r.bytes(3));
                p.clear_option(n);
            } else {
                p.set_option(n, LinkedList::new());
            }
        }
    }
    Some(p)
}

/// messages of sizes ordinary use never reaches: hundreds of values under one number, hundreds of numbers,
/// values of 65535 / 65536 / 65549 / the longest encodable 65535 + 269 bytes and one byte more (refused),
/// a payload above 64 KiB, an 8-byte token before an option whose delta needs two extension bytes
fn large_messages(r: &mut Rng) -> Vec<Packet> {
    let mut v = vec![];
    let mut many_vals = Packet::new();
    for i in 0..300usize {
        many_vals.add_option(CoapOption::UriQuery, vec![(i % 251) as u8; i % 3]);
    }
    v.push(many_vals);
    let mut many_nums = Packet::new();
    for i in 0..300u16 {
        many_nums.add_option(CoapOption::from(1 + i * 7), vec![i as u8]);
    }
    v.push(many_nums);
    for len in [65535usize, 65536, 65549, 65535 + 269, 65535 + 270] {
        let mut p = Packet::new();
        p.set_token(r.bytes(8));
        p.add_option(CoapOption::from(2000), r.bytes(len));
        p.add_option(CoapOption::from(2000), vec![1]);
        v.push(p);
    }
    let mut big_pay = Packet::new();
    big_pay.header.code = 0x45.into();
    big_pay.payload = r.bytes(70_000);
    v.push(big_pay);
    v
}

/// the public HeaderRaw::serialize_into on buffers of every fill state: it appends the four header bytes
/// (refusing a buffer whose capacity is below 4), and never leaves len above capacity
fn hdr_ser_events(out: &mut Out) {
    for cap_extra in [0usize, 1, 2, 3, 4, 5, 8] {
        for len in [0usize, 1, 2, 3, 4, 6, 9] {
            let mut buf: Vec<u8> = Vec::with_capacity(len + cap_extra);
            buf.extend((0..len).map(|i| 0xC0 + i as u8));
            let cap = buf.capacity();
            let pre = buf.clone();
            let raw = coap_lite::HeaderRaw::try_from(&[0x48 + (len as u8 % 4), 0x45, (len as u8) ^ 0x5A, cap_extra as u8][..]).unwrap();
            let res = guarded(|| { let mut b = buf; let r = raw.serialize_into(&mut b); (r.is_ok(), b.len() <= b.capacity(), b) });
            let o = match res {
                None => json!({"k": "panic"}),
                Some((true, fits, b)) => json!({"k": "ok", "bytes": jbytes(&b), "fits": fits}),
                Some((false, fits, b)) => json!({"k": "err", "bytes": jbytes(&b), "fits": fits}),
            };
            out.ev(json!({"op": "hdr_ser", "pre": jbytes(&pre), "cap": cap, "hdr": [0x48 + (len as u8 % 4), 0x45, (len as u8) ^ 0x5A, cap_extra as u8], "out": o}));
        }
    }
}

pub fn rec_wire_limit(args: &Args) {
    let seed = args.u("seed", 1);
    let thorough = args.thorough();
    let mut r = Rng::new(seed ^ 0xC04);
    let mut out = Out::create(args.s("out"));
    let max = Packet::MAX_SIZE;
    // default limit
    for by_opt in [false, true] {
        for d in [-2i64, -1, 0, 1, 2] {
            for _ in 0..(if thorough { 12 } else { 3 }) {
                let t = (max as i64 + d) as usize;
                if max > 2000 && !thorough && by_opt {
                    continue;
                }
                if let Some(p) = sized_message(&mut r, t, by_opt) {
                    ev_to_bytes(&mut out, &p, None);
                }
            }
        }
    }
    // custom limits
    let mut limits: Vec<usize> = (0..=8).collect();
    limits.extend([12, 13, 14, 255, 256, 268, 269, 270, 271, 1279, 1280, 1281]);
    for _ in 0..(if thorough { 200 } else { 20 }) {
        limits.push(r.below(1500) as usize);
    }
    for &l in &limits {
        for by_opt in [false, true] {
            for d in [-1i64, 0, 1] {
                let t = l as i64 + d;
                if t < 4 {
                    // nothing is that short: take the shortest message
                    let mut p = Packet::new();
                    p.set_token(vec![]);
                    ev_to_bytes(&mut out, &p, Some(Some(l)));
                    continue;
                }
                if let Some(p) = sized_message(&mut r, t as usize, by_opt) {
                    ev_to_bytes(&mut out, &p, Some(Some(l)));
                }
            }
        }
    }
    // random messages at random limits and unlimited
    for _ in 0..(if thorough { 4000 } else { 300 }) {
        let p = random_message(&mut r, 6, 40, 60);
        let wl = p.to_bytes_unlimited().map(|b| b.len()).unwrap_or(0);
        for l in [wl.saturating_sub(1), wl, wl + 1] {
            ev_to_bytes(&mut out, &p, Some(Some(l)));
        }
        ev_to_bytes(&mut out, &p, Some(None));
        ev_to_bytes(&mut out, &p, None);
    }
    // large shapes: hundreds of values under one number, hundreds of numbers, the longest encodable value
    // (65535 + 269 bytes) and one byte more (refused), a payload above 64 KiB, the largest limits
    {
        for p in large_messages(&mut r).iter() {
            let wl = guarded(|| p.to_bytes_unlimited()).and_then(|x| x.ok()).map(|b| b.len()).unwrap_or(0);
            ev_to_bytes(&mut out, p, Some(None));
            ev_to_bytes(&mut out, p, None);
            for l in [wl.saturating_sub(1), wl, wl + 1, usize::MAX, usize::MAX - 3, 1usize << 32] {
                ev_to_bytes(&mut out, p, Some(Some(l)));
            }
        }
    }
    hdr_ser_events(&mut out);
    // header replaced after set_token (the header is a public field): its token-length nibble then
    // disagrees with the stored token; the limit still applies to the bytes actually sent
    for tl in [0usize, 1, 4, 8] {
        for htkl in [0u8, 2, 8, 15] {
            let mut p = Packet::new();
            p.set_token(r.bytes(tl));
            p.header = coap_lite::Header::new();
            p.header.set_token_length(htkl);
            p.header.code = 0x02.into();
            p.add_option(CoapOption::UriPath, b"abc".to_vec());
            p.payload = r.bytes(20);
            let wl = 4 + tl + 4 + 1 + 20;
            for l in [wl - 9, wl - 8, wl - 1, wl, wl + 1, wl + 7, wl + 8, wl + 15] {
                ev_to_bytes(&mut out, &p, Some(Some(l)));
            }
            ev_to_bytes(&mut out, &p, Some(None));
            // the same at the default limit
            let mut q = p.clone();
            for total in [Packet::MAX_SIZE - 1, Packet::MAX_SIZE, Packet::MAX_SIZE + 1, Packet::MAX_SIZE + 8] {
                if total > 100_000 {
                    continue;
                }
                q.payload = r.bytes(total - (4 + tl + 4 + 1));
                ev_to_bytes(&mut out, &q, None);
            }
        }
    }
    // 0.00 message with a long stored payload: the payload is not sent, so it must not count
    for pl in [1usize, 1276, 1277, 1300, 5000] {
        let mut p = Packet::new();
        p.header.code = 0u8.into();
        p.payload = r.bytes(pl);
        ev_to_bytes(&mut out, &p, None);
        ev_to_bytes(&mut out, &p, Some(Some(4)));
        ev_to_bytes(&mut out, &p, Some(Some(3)));
        p.add_option(CoapOption::ETag, vec![1, 2]);
        ev_to_bytes(&mut out, &p, Some(Some(7)));
        ev_to_bytes(&mut out, &p, Some(Some(6)));
    }
    // value lengths around the 16-bit extension limit, every API
    for vl in [65535usize, 65535 + 268, 65535 + 269, 65535 + 270, 70000] {
        let mut p = Packet::new();
        let v: Vec<u8> = (0..vl).map(|i| (i % 253) as u8).collect();
        p.add_option(CoapOption::from(2000), v);
        ev_to_bytes(&mut out, &p, Some(None));
        ev_to_bytes(&mut out, &p, Some(Some(100000)));
        ev_to_bytes(&mut out, &p, None);
    }
    let n = out.finish();
    println!("{}", json!({"events": n}));
}
