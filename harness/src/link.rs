//! C16-C18: link-format writer, parser iterators, Unquote.
use crate::util::*;
use coap_lite::link_format::{LinkFormatParser, LinkFormatWrite, Unquote};
use serde_json::{json, Value};
use std::fmt::Write;

fn cps(s: &str) -> Value {
    Value::Array(s.chars().map(|c| json!(c as u32)).collect())
}

fn vstr(v: &Value) -> String {
    v.as_array().map(|a| a.iter().map(|x| char::from_u32(x.as_u64().unwrap() as u32).unwrap_or('\u{FFFD}')).collect()).unwrap_or_default()
}

/// (1-based char offset, char length) of `sub` inside `base`; offset 0 when a non-empty slice lies outside
fn slice_pos(base: &str, sub: &str) -> Value {
    let b0 = base.as_ptr() as usize;
    let s0 = sub.as_ptr() as usize;
    let nchars = sub.chars().count();
    if sub.is_empty() {
        // an empty slice is trivially a substring; report where it points if inside
        if s0 >= b0 && s0 <= b0 + base.len() && base.is_char_boundary(s0 - b0) {
            return json!([base[..s0 - b0].chars().count() + 1, 0]);
        }
        return json!([1, 0]);
    }
    if s0 < b0 || s0 + sub.len() > b0 + base.len() || !base.is_char_boundary(s0 - b0) {
        return json!([0, nchars]);
    }
    json!([base[..s0 - b0].chars().count() + 1, nchars])
}

/// One complete run of the real iterators over `s`: every slice, both unquoted forms, panics.
pub fn parse_run(s: &str) -> Value {
    let mut items: Vec<Value> = vec![];
    let mut panicked = false;
    let mut nonterm = false;
    let mut after_err = 0u64;
    let budget = s.chars().count() + 3;
    let r = guarded(|| {
        let mut p = LinkFormatParser::new(s);
        let mut seen_err = false;
        let mut n = 0usize;
        loop {
            n += 1;
            if n > budget + 3 {
                nonterm = true;
                break;
            }
            match p.next() {
                None => {
                    if seen_err && n <= budget {
                        continue; // keep polling a little: a fused iterator stays at None
                    }
                    break;
                }
                Some(Err(_)) => {
                    if seen_err {
                        after_err += 1;
                    }
                    seen_err = true;
                    items.push(json!({"k": "err"}));
                }
                Some(Ok((target, attrs))) => {
                    if seen_err {
                        after_err += 1;
                    }
                    let mut av: Vec<Value> = vec![];
                    let mut m = 0usize;
                    let mut apanic = false;
                    let mut it = attrs;
                    loop {
                        m += 1;
                        if m > budget {
                            nonterm = true;
                            break;
                        }
                        let nx = guarded(|| it.next());
                        match nx {
                            None => {
                                apanic = true;
                                break;
                            }
                            Some(None) => break,
                            Some(Some((key, unq))) => {
                                let raw = guarded(|| unq.clone().into_raw_str());
                                let chars = guarded(|| {
                                    let mut out = String::new();
                                    let mut k = 0usize;
                                    let mut u = unq.clone();
                                    while let Some(c) = u.next() {
                                        out.push(c);
                                        k += 1;
                                        if k > budget {
                                            break;
                                        }
                                    }
                                    // fused: further calls keep returning None
                                    let mut fused = u.next().is_none() && u.next().is_none();
                                    // the other ways of driving the iterator agree with repeated next(), also on
                                    // a clone taken half-way
                                    if k <= budget {
                                        let n = out.chars().count();
                                        let (lo, hi) = unq.size_hint();
                                        fused &= lo <= n && hi.map(|h| h >= n).unwrap_or(true);
                                        fused &= unq.clone().count() == n && unq.clone().last() == out.chars().last();
                                        fused &= unq.clone().nth(n / 2) == out.chars().nth(n / 2);
                                        // ... and leave the iterator where repeated next() would: what follows a
                                        // skip (nth / skip / step_by) is the rest of the characters, in both
                                        // unquoting paths
                                        for j in [0usize, 1, 2, n / 2, n.saturating_sub(1), n] {
                                            let mut u2 = unq.clone();
                                            fused &= u2.nth(j) == out.chars().nth(j);
                                            let rest: String = out.chars().skip(j + 1).collect();
                                            fused &= u2.to_cow() == rest && u2.clone().collect::<String>() == rest;
                                            fused &= unq.clone().skip(j).collect::<String>() == out.chars().skip(j).collect::<String>();
                                        }
                                        fused &= unq.clone().step_by(2).collect::<String>() == out.chars().step_by(2).collect::<String>();
                                        fused &= unq.clone().fold(String::new(), |mut a, c| { a.push(c); a }) == out;
                                        let mut half = unq.clone();
                                        for _ in 0..n / 2 { half.next(); }
                                        let rest: String = half.clone().collect();
                                        fused &= rest == out.chars().skip(n / 2).collect::<String>();
                                    }
                                    (out, k > budget, fused)
                                });
                                let disp = guarded(|| unq.to_string());
                                let cow = guarded(|| unq.to_cow().into_owned());
                                let quoted = guarded(|| unq.is_quoted());
                                // at every position of the iterator the copy-on-write form equals what the
                                // character iterator still yields
                                // (for values of thousands of characters: at 64 evenly spaced positions, the
                                // comparison itself being linear in what is left)
                                let stride = raw.as_ref().map(|r| r.len() / 64).unwrap_or(0).max(1);
                                let mid_ok = guarded(|| {
                                    let mut u = unq.clone();
                                    let mut k = 0usize;
                                    loop {
                                        if k % stride == 0 {
                                            let rest: String = u.clone().collect();
                                            if u.to_cow() != rest || u.to_string() != rest {
                                                return false;
                                            }
                                        }
                                        k += 1;
                                        if u.next().is_none() || k > budget {
                                            return true;
                                        }
                                    }
                                });
                                av.push(json!({
                                    "key": slice_pos(s, key),
                                    "val": raw.map(|r| slice_pos(s, r)).unwrap_or(json!([0, 1])),
                                    "chars": chars.as_ref().map(|c| cps(&c.0)).unwrap_or(json!([])),
                                    "chars_ok": chars.as_ref().map(|c| !c.1 && c.2).unwrap_or(false),
                                    "disp_same": disp.as_ref().map(|d| Some(d) == chars.as_ref().map(|c| &c.0)).unwrap_or(false),
                                    "cow": cow.as_ref().map(|c| cps(c)).unwrap_or(json!([])),
                                    "cow_ok": cow.is_some() && mid_ok == Some(true),
                                    "quoted": quoted.unwrap_or(false),
                                }));
                            }
                        }
                    }
                    if apanic {
                        panicked = true;
                    }
                    items.push(json!({"k": "link", "t": slice_pos(s, target), "attrs": av}));
                }
            }
        }
    });
    if r.is_none() {
        panicked = true;
    }
    json!({"panicked": panicked, "nonterm": nonterm, "after_err": after_err, "items": items})
}

/// the relation C17 itself states, natively: used only to choose what a large sweep forwards to TLC
fn run_unremarkable(run: &Value) -> bool {
    if run["panicked"] == true || run["nonterm"] == true || run["after_err"].as_u64() != Some(0) {
        return false;
    }
    for it in run["items"].as_array().unwrap() {
        if it["k"] == "link" {
            if it["t"][0] == 0 {
                return false;
            }
            for a in it["attrs"].as_array().unwrap() {
                if a["cow_ok"] != true || a["chars_ok"] != true || a["cow"] != a["chars"] || a["disp_same"] != true || a["key"][0] == 0 || a["val"][0] == 0 {
                    return false;
                }
            }
        }
    }
    true
}

fn write_doc<W: Write>(sink: &mut W, d: &Value, nl: bool) -> (Vec<&'static str>, &'static str) {
    write_doc_dropping(sink, d, nl, 0)
}

thread_local! {
    /// when set, the newline option is set again (to the same value) between links: no effect on the text
    static RESET_NL: std::cell::Cell<bool> = std::cell::Cell::new(false);
}

/// `drop_mask`: link i's attribute writer is dropped without finish() when bit i is set (an API use as
/// legitimate as finishing it: the document-level finish() must still report every failure)
fn write_doc_dropping<W: Write>(sink: &mut W, d: &Value, nl: bool, drop_mask: u64) -> (Vec<&'static str>, &'static str) {
    let mut w = LinkFormatWrite::new(sink);
    if nl {
        w.set_add_newlines(true);
    }
    let mut lf = vec![];
    for (li, lk) in d.as_array().unwrap().iter().enumerate() {
        if li > 0 && RESET_NL.with(|c| c.get()) {
            w.set_add_newlines(nl);
        }
        let mut a = w.link(&vstr(&lk["target"]));
        for at in lk["attrs"].as_array().unwrap() {
            let key = vstr(&at["key"]);
            let val = vstr(&at["val"]);
            a = match at["kind"].as_str().unwrap() {
                "attr" => a.attr(&key, &val),
                "quoted" => a.attr_quoted(&key, &val),
                "u16" => a.attr_u16(&key, val.parse::<u16>().unwrap_or_else(|_| tool_error("bad u16 attribute value in vector"))),
                _ => a.attr_u32(&key, val.parse::<u32>().unwrap_or_else(|_| tool_error("bad u32 attribute value in vector"))),
            };
        }
        if drop_mask >> (li % 64) & 1 == 1 {
            drop(a);
            lf.push("dropped");
        } else {
            lf.push(if a.finish().is_ok() { "ok" } else { "err" });
        }
    }
    let fin = if w.finish().is_ok() { "ok" } else { "err" };
    (lf, fin)
}

struct FaultSink {
    calls: Vec<(String, bool)>,
    mode: u8, // 0 never, 1 once, 2 from
    k: usize,
}
impl Write for FaultSink {
    fn write_str(&mut self, s: &str) -> std::fmt::Result {
        let idx = self.calls.len();
        let fail = (self.mode == 1 && idx == self.k) || (self.mode == 2 && idx >= self.k);
        self.calls.push((s.to_string(), !fail));
        if fail {
            Err(std::fmt::Error)
        } else {
            Ok(())
        }
    }
}

fn roundtrip_event(d: &Value, nl: bool) -> Value {
    let mut text = String::new();
    let r = guarded(|| write_doc(&mut text, d, nl));
    match r {
        None => json!({"op": "roundtrip", "d": d, "nl": nl, "panicked": true, "text": [], "finish": "err", "run": {"panicked": true, "nonterm": false, "after_err": 0, "items": []}}),
        Some((_, fin)) => json!({"op": "roundtrip", "d": d, "nl": nl, "panicked": false, "text": cps(&text), "finish": fin, "run": parse_run(&text)}),
    }
}

/// spec -> impl (C16): documents from MC_LinkWrite: {d, nl, text}
pub fn replay_linkwrite(args: &Args) {
    let mut rep = Report::default();
    for v in read_vectors(args.s("in")) {
        rep.evaluated += 1;
        let d = &v["d"];
        let nl = v["nl"].as_bool().unwrap();
        let e = roundtrip_event(d, nl);
        if e["text"] != v["text"] {
            rep.drift += 1;
        }
        // the round trip itself: same links, keys and unquoted values
        let run = &e["run"];
        let text: Vec<u32> = e["text"].as_array().unwrap().iter().map(|x| x.as_u64().unwrap() as u32).collect();
        let sub = |pos: &Value| -> Vec<u32> {
            let (a, n) = (pos[0].as_u64().unwrap() as usize, pos[1].as_u64().unwrap() as usize);
            if n == 0 || a == 0 { vec![] } else { text[a - 1..a - 1 + n].to_vec() }
        };
        let mut ok = e["panicked"] == false && e["finish"] == "ok" && run_unremarkable(run);
        let items = run["items"].as_array().unwrap();
        let dl = d.as_array().unwrap();
        if items.len() != dl.len() {
            ok = false;
        } else {
            for (it, lk) in items.iter().zip(dl) {
                if it["k"] != "link" || json!(sub(&it["t"])) != lk["target"] {
                    ok = false;
                    break;
                }
                let ia = it["attrs"].as_array().unwrap();
                let da = lk["attrs"].as_array().unwrap();
                if ia.len() != da.len() {
                    ok = false;
                    break;
                }
                for (x, y) in ia.iter().zip(da) {
                    if json!(sub(&x["key"])) != y["key"] || x["chars"] != y["val"] || x["cow"] != y["val"] {
                        ok = false;
                    }
                }
            }
        }
        if !ok {
            rep.bad("C16", "writer output does not parse back to the document", json!({"d": d, "nl": nl, "text": e["text"], "run": run}));
        }
        if rep.evaluated % 30_000 == 5 {
            rep.sample(json!({"d": d, "nl": nl, "text": vstr(&e["text"])}));
        }
    }
    rep.write(args.s("out"));
}

/// spec -> impl (C17): strings from MC_LinkParse: {s, items}
pub fn replay_linkparse(args: &Args) {
    let mut rep = Report::default();
    for v in read_vectors(args.s("in")) {
        rep.evaluated += 1;
        let s = vstr(&v["s"]);
        let run = parse_run(&s);
        if !run_unremarkable(&run) {
            rep.bad("C17", "panic / non-termination / item after error / slice outside input / to_cow differs from chars", json!({"s": v["s"], "text": s, "run": run}));
            continue;
        }
        // exact agreement with the specification's parse is informational
        let exp = v["items"].as_array().unwrap();
        let got = run["items"].as_array().unwrap();
        let mut same = exp.len() == got.len();
        if same {
            for (e, g) in exp.iter().zip(got) {
                if e["k"] != g["k"] {
                    same = false;
                    break;
                }
                if e["k"] == "link" {
                    let pos_eq = |a: &Value, b: &Value| a[1] == b[1] && (a[1] == 0 || a[0] == b[0]);
                    if !pos_eq(&e["t"], &g["t"]) {
                        same = false;
                    }
                    let (ea, ga) = (e["attrs"].as_array().unwrap(), g["attrs"].as_array().unwrap());
                    if ea.len() != ga.len() {
                        same = false;
                    } else {
                        for (x, y) in ea.iter().zip(ga) {
                            if !pos_eq(&x["key"], &y["key"]) || !pos_eq(&x["val"], &y["val"]) || x["unq"] != y["chars"] {
                                same = false;
                            }
                        }
                    }
                }
            }
        }
        if !same {
            rep.drift += 1;
            if rep.drift <= 3 {
                rep.sample(json!({"drift": {"s": s, "spec": v["items"], "code": run["items"]}}));
            }
        }
        if rep.evaluated % 40_000 == 9 {
            rep.sample(json!({"s": s, "items": run["items"]}));
        }
    }
    rep.write(args.s("out"));
}

// ---- recorders ----------------------------------------------------------------------------------

const STRUCT: &[char] = &['<', '>', ';', ',', '"', '\\', '=', ' ', 'a', 'é'];
const WIDE: &[char] = &['<', '>', ';', ',', '"', '\\', '=', ' ', 'a', 'é', '\n', '\r', '\t', 'Z', '0', '9', '-', '/', '\u{A0}', '\u{2003}', '😁', '\u{10FFFF}', '\u{0}', '\u{7F}', '\u{3000}', '漢'];

fn random_text(r: &mut Rng, alpha: &[char], max: usize) -> String {
    (0..r.below(max as u64 + 1)).map(|_| *r.pick(alpha)).collect()
}

fn random_doc(r: &mut Rng, maxl: usize, maxa: usize, maxv: usize) -> Value {
    // every attribute name the crate knows (the code is generic: none of them may be treated specially),
    // some it does not, and links whose attributes all share one key
    let keys = ["rt", "if", "ct", "title*", "k-1", "é", "sz", "a.b_c", "rel", "anchor", "hreflang", "media", "title", "type", "v", "obs",
                "ep", "lt", "d", "base", "gp", "et", "REL", ""];
    let nl = r.below(maxl as u64 + 1);
    let mut d = vec![];
    for _ in 0..nl {
        let target: String = random_text(r, WIDE, 12).replace('>', "/");
        let na = r.below(maxa as u64 + 1);
        let mut attrs = vec![];
        let one_key = if r.chance(1, 3) { Some(*r.pick(&keys)) } else { None };
        for _ in 0..na {
            let key = one_key.unwrap_or_else(|| *r.pick(&keys));
            // values whose edges are (non-ASCII) white space, with nothing that forces quoting in between
            let ws = ['\u{85}', '\u{A0}', '\u{1680}', '\u{2000}', '\u{2003}', '\u{200A}', '\u{2028}', '\u{2029}', '\u{202F}', '\u{205F}', '\u{3000}', ' ', '\t'];
            if r.chance(1, 5) {
                let mid: String = (0..r.below(4)).map(|_| *r.pick(&['a', '7', 'é', '漢', 'Z'])).collect();
                let val = match r.below(3) { 0 => format!("{}{}", r.pick(&ws), mid), 1 => format!("{}{}", mid, r.pick(&ws)), _ => format!("{}{}{}", r.pick(&ws), mid, r.pick(&ws)) };
                attrs.push(json!({"key": cps(key), "kind": if r.chance(3, 4) { "attr" } else { "quoted" }, "val": cps(&val)}));
                continue;
            }
            let (kind, val) = match r.below(6) {
                0 => ("u32", (*r.pick(&[0u32, 1, 40, 65535, 65536, u32::MAX])).to_string()),
                1 => ("u16", (*r.pick(&[0u16, 7, 255, 65535])).to_string()),
                2 | 3 => ("attr", if r.chance(1, 2) { random_text(r, &['a', 'Z', '0', '9'], maxv) } else { random_text(r, WIDE, maxv) }),
                _ => ("quoted", random_text(r, WIDE, maxv)),
            };
            attrs.push(json!({"key": cps(key), "kind": kind, "val": cps(&val)}));
        }
        d.push(json!({"target": cps(&target), "attrs": attrs}));
    }
    Value::Array(d)
}

pub fn rec_link(args: &Args) {
    let seed = args.u("seed", 1);
    let thorough = args.thorough();
    let what = args.opt("what").unwrap_or("all");
    let mut r = Rng::new(seed ^ 0xC16);
    let mut out = Out::create(args.s("out"));
    let mut swept = 0u64;
    let mut forwarded = 0u64;
    let mut docs: Vec<(Value, bool)> = vec![];
    for _ in 0..(if thorough { 3000 } else { 300 }) {
        docs.push((random_doc(&mut r, 4, 4, 40), r.chance(1, 2)));
    }
    if what == "all" || what == "roundtrip" {
        for (d, nl) in &docs {
            out.ev(roundtrip_event(d, *nl));
        }
    }
    if what == "all" || what == "parse" {
        // every prefix of well-formed documents
        for (d, nl) in docs.iter().take(if thorough { 300 } else { 40 }) {
            let mut text = String::new();
            let _ = guarded(|| write_doc(&mut text, d, *nl));
            let chars: Vec<char> = text.chars().collect();
            for k in 0..=chars.len().min(160) {
                let p: String = chars[..k].iter().collect();
                out.ev(json!({"op": "parse", "s": cps(&p), "run": parse_run(&p)}));
            }
        }
        // random longer strings over a wider alphabet
        for _ in 0..(if thorough { 20000 } else { 1500 }) {
            let s = if r.chance(1, 2) { random_text(&mut r, STRUCT, 30) } else { random_text(&mut r, WIDE, 30) };
            out.ev(json!({"op": "parse", "s": cps(&s), "run": parse_run(&s)}));
        }
        // long inputs (recursion depth, caps, quadratic blow-ups that turn into stalls): evaluated natively,
        // an anomaly - or the process dying - is what gets reported; a healthy run leaves one short summary
        {
            let ws = |n: usize| " \t\n".chars().cycle().take(n).collect::<String>();
            let longs: Vec<String> = vec![
                format!("{}<a>", ws(300_000)),
                format!("<a>,{}<b>;k=v", ws(300_000)),
                format!("<{}>;k=v", "t".repeat(200_000)),
                format!("<a>;k=\"{}\"", "v\\\"é".repeat(50_000)),
                format!("<a>;k={}", "v".repeat(200_000)),
                format!("<a>{}", ";k=v".repeat(50_000)),
                "<a>;k=v,".repeat(30_000),
                format!("<a>;k=\"{}", "x".repeat(200_000)),
                ";".repeat(100_000),
                format!("<a>;{}=v", "k".repeat(200_000)),
            ];
            for s in &longs {
                swept += 1;
                let t_dbg = std::time::Instant::now();
                let run = parse_run(s);
                if std::env::var("CLV_TIMING").is_ok() { eprintln!("long input {} bytes: {:?}", s.len(), t_dbg.elapsed()); }
                if !run_unremarkable(&run) {
                    forwarded += 1;
                    let head: String = s.chars().take(60).collect();
                    out.ev(json!({"op": "parse", "s": cps(&head), "run": {"panicked": run["panicked"], "nonterm": run["nonterm"], "after_err": run["after_err"], "items": []}, "long": s.len()}));
                }
            }
        }
        // directed: unquote corner cases as attribute values
        for v in ["\"", "\"a", "\"a\"b", "\"\\", "\"\\\"", "\"a\\", "\"\"", "\"\"\"", "a\"b", "\" \"", "\"a\" b", "\\", "\"\\\\\"x", "\"é", "\"😁\"é"] {
            let s = format!("<t>;k={}", v);
            out.ev(json!({"op": "parse", "s": cps(&s), "run": parse_run(&s)}));
            let s = format!("<t>;k={};j=1,<u>", v);
            out.ev(json!({"op": "parse", "s": cps(&s), "run": parse_run(&s)}));
        }
        // native sweep over the structural alphabet with anomaly forwarding
        let depth = if thorough { 8 } else { 6 };
        let full_to = if thorough { 5 } else { 4 }; // all strings up to this length go to TLC
        let mut idx = vec![0usize; depth];
        for len in 0..=depth {
            for x in idx.iter_mut() {
                *x = 0;
            }
            let total = (STRUCT.len() as u64).pow(len as u32);
            for n in 0..total {
                let mut m = n;
                for k in 0..len {
                    idx[len - 1 - k] = (m % STRUCT.len() as u64) as usize;
                    m /= STRUCT.len() as u64;
                }
                let s: String = idx[..len].iter().map(|i| STRUCT[*i]).collect();
                swept += 1;
                let run = parse_run(&s);
                let sample = len <= full_to || n.wrapping_mul(2654435761) % total < 400;
                if sample || !run_unremarkable(&run) {
                    if forwarded < 400_000 {
                        forwarded += 1;
                        out.ev(json!({"op": "parse", "s": cps(&s), "run": run}));
                    }
                }
            }
        }
    }
    if what == "all" || what == "fault" {
        // every fault position of every document: first a fault-free run to learn the number of sink calls
        for (d, _) in docs.iter().take(if thorough { 400 } else { 60 }) {
            for nl in [false, true] {
                let mut clean = FaultSink { calls: vec![], mode: 0, k: 0 };
                let base = guarded(|| write_doc(&mut clean, d, nl));
                let n = clean.calls.len();
                let full: String = clean.calls.iter().map(|c| c.0.as_str()).collect();
                let fin0 = base.as_ref().map(|b| b.1).unwrap_or("panic");
                out.ev(json!({"op": "fault", "d": d, "nl": nl, "mode": "never", "k": 0, "panicked": base.is_none(),
                              "calls": clean.calls.iter().map(|c| json!([cps(&c.0), c.1])).collect::<Vec<_>>(),
                              "lf": base.as_ref().map(|b| json!(b.0)).unwrap_or(json!([])), "finish": fin0, "full": cps(&full)}));
                for k in 0..n.min(if thorough { 400 } else { 120 }) {
                    for (mode, mname) in [(1u8, "once"), (2u8, "from")] {
                        let mut sink = FaultSink { calls: vec![], mode, k };
                        let mask = [0u64, u64::MAX, 0xAAAA_AAAA_AAAA_AAAA, 0x5555_5555_5555_5555][(k + mode as usize) % 4];
                        RESET_NL.with(|c| c.set(k % 3 == 1));
                        let res = guarded(|| write_doc_dropping(&mut sink, d, nl, mask));
                        RESET_NL.with(|c| c.set(false));
                        out.ev(json!({"op": "fault", "d": d, "nl": nl, "mode": mname, "k": k, "panicked": res.is_none(),
                                      "calls": sink.calls.iter().map(|c| json!([cps(&c.0), c.1])).collect::<Vec<_>>(),
                                      "lf": res.as_ref().map(|b| json!(b.0)).unwrap_or(json!([])),
                                      "finish": res.as_ref().map(|b| b.1).unwrap_or("panic"), "full": cps(&full)}));
                    }
                }
            }
        }
    }
    let n = out.finish();
    println!("{}", json!({"events": n, "swept_native": swept, "forwarded": forwarded}));
}

/// spec -> impl (C18): documents from MC_LinkWrite replayed under every fault position of the real sink
pub fn replay_linkfault(args: &Args) {
    let mut rep = Report::default();
    for v in read_vectors(args.s("in")) {
        let d = &v["d"];
        let nl = v["nl"].as_bool().unwrap();
        let mut clean = FaultSink { calls: vec![], mode: 0, k: 0 };
        let base = guarded(|| write_doc(&mut clean, d, nl));
        let full: String = clean.calls.iter().map(|c| c.0.as_str()).collect();
        rep.evaluated += 1;
        if base.as_ref().map(|b| b.1) != Some("ok") || json!(cps(&full)) != v["text"] && false {
            rep.bad("C18", "fault-free run does not report success", json!({"d": d, "nl": nl}));
        }
        if cps(&full) != v["text"] {
            rep.drift += 1;
        }
        for k in 0..clean.calls.len() {
            for mode in [1u8, 2u8] {
                rep.evaluated += 1;
                let mut sink = FaultSink { calls: vec![], mode, k };
                let mask = [0u64, u64::MAX, 0xAAAA_AAAA_AAAA_AAAA, 0x5555_5555_5555_5555][(k + mode as usize) % 4];
                RESET_NL.with(|c| c.set(k % 3 == 1));
                let res = guarded(|| write_doc_dropping(&mut sink, d, nl, mask));
                RESET_NL.with(|c| c.set(false));
                let first_fail = sink.calls.iter().position(|c| !c.1);
                let held: String = sink.calls.iter().filter(|c| c.1).map(|c| c.0.as_str()).collect();
                let ok = match &res {
                    None => false,
                    Some((lf, fin)) => {
                        first_fail.is_some()
                            && *fin == "err"
                            && first_fail == Some(sink.calls.len() - 1)
                            && full.starts_with(&held)
                            && (lf.last() == Some(&"err") || lf.last() == Some(&"dropped"))
                    }
                };
                if !ok {
                    rep.bad("C18", "sink failure not reported, or text written after the failed write", json!({"d": d, "nl": nl, "k": k, "mode": mode,
                        "calls": sink.calls.iter().map(|c| json!([c.0, c.1])).collect::<Vec<_>>(), "result": res.map(|r| json!({"links": r.0, "finish": r.1}))}));
                }
            }
        }
        if rep.evaluated % 5000 < 40 {
            rep.sample(json!({"d": d, "nl": nl, "sink_calls": clean.calls.len()}));
        }
    }
    rep.write(args.s("out"));
}

#[allow(dead_code)]
pub fn unquote_probe(s: &str) -> (Option<String>, Option<String>) {
    let u = Unquote::new(s);
    (guarded(|| u.to_string()), guarded(|| u.to_cow().into_owned()))
}
