//! C07 / C19: convenience accessors, reply preparation, coap-message trait views.
use crate::registry::*;
use crate::util::*;
use coap_lite::error::HandlingError;
use coap_lite::{CoapOption, CoapRequest, CoapResponse, ContentFormat, MessageClass, ObserveOption, Packet, RequestType, ResponseType};
use serde_json::{json, Value};

type Ep = String;

fn obs_name(r: &CoapRequest<Ep>) -> &'static str {
    match r.get_observe_flag() {
        None => "none",
        Some(Ok(ObserveOption::Register)) => "register",
        Some(Ok(ObserveOption::Deregister)) => "deregister",
        Some(Err(_)) => "invalid",
    }
}

/// The stored code is an enum value, not a byte: besides the 256 values a byte decodes to ("canon") the
/// public API can store `Request(UnKnown)`, `Response(UnKnown)` and `Reserved(n)` with the byte of a named
/// code.  The projection of a code is its byte plus this form (Views.tla, CodeForms).
pub fn code_form(c: MessageClass) -> &'static str {
    if MessageClass::from(u8::from(c)) == c {
        return "canon";
    }
    match c {
        MessageClass::Request(_) => "Request(UnKnown)",
        MessageClass::Response(_) => "Response(UnKnown)",
        MessageClass::Reserved(_) => "Reserved",
        MessageClass::Empty => "Empty?",
    }
}

fn flat02(p: &Packet) -> Value {
    use coap_message::{MessageOption, ReadableMessage};
    let opts: Vec<Value> = ReadableMessage::options(p).map(|o| json!([o.number(), jbytes(o.value())])).collect();
    let c = ReadableMessage::code(p);
    json!({"code": u8::from(c), "cform": code_form(c), "pay": jbytes(ReadableMessage::payload(p)), "opts": opts})
}

fn flat03(p: &Packet) -> Value {
    use coap_message_0_3::{MessageOption, ReadableMessage};
    let opts: Vec<Value> = ReadableMessage::options(p).map(|o| json!([o.number(), jbytes(o.value())])).collect();
    let c = ReadableMessage::code(p);
    json!({"code": u8::from(c), "cform": code_form(c), "pay": jbytes(ReadableMessage::payload(p)), "opts": opts})
}

/// every convenience getter of the message, by registry names
pub fn all_views(p: &Packet) -> Value {
    let req: CoapRequest<Ep> = CoapRequest { message: p.clone(), response: None, source: None };
    let resp = CoapResponse { message: p.clone() };
    let pathvec = match req.get_path_as_vec() {
        Ok(v) => json!({"ok": true, "segs": v.iter().map(|s| jbytes(s.as_bytes())).collect::<Vec<_>>()}),
        Err(_) => json!({"ok": false, "segs": []}),
    };
    let m = match req.get_method() { RequestType::UnKnown => "UnKnown", m => method_name(*m) };
    let s = match resp.get_status() { ResponseType::UnKnown => "UnKnown", s => response_name(*s) };
    let flat: Vec<Value> = p.options().flat_map(|(n, vs)| vs.iter().map(move |v| json!([*n, jbytes(v)]))).collect();
    json!({
        "method": m, "status": s,
        "path": jbytes(req.get_path().as_bytes()),
        "pathvec": pathvec,
        "obs": obs_name(&req),
        "cf": p.get_content_format().map(cf_name).unwrap_or("-"),
        "flat": flat,
    })
}

fn apply_conv(p: &mut Packet, c: &Value) {
    let a = &c["a"];
    let name = a["name"].as_str().unwrap_or("");
    match c["f"].as_str().unwrap() {
        "set_method" => {
            let mut r: CoapRequest<Ep> = CoapRequest { message: std::mem::take(p), response: None, source: None };
            r.set_method(if name == "UnKnown" { RequestType::UnKnown } else { *ALL_METHODS.iter().find(|m| method_name(**m) == name).unwrap_or_else(|| tool_error("method name")) });
            *p = r.message;
        }
        "set_status" => {
            let mut r = CoapResponse { message: std::mem::take(p) };
            r.set_status(if name == "UnKnown" { ResponseType::UnKnown } else { *ALL_RESPONSES.iter().find(|m| response_name(**m) == name).unwrap_or_else(|| tool_error("status name")) });
            *p = r.message;
        }
        "set_path" => {
            let mut r: CoapRequest<Ep> = CoapRequest { message: std::mem::take(p), response: None, source: None };
            r.set_path(&String::from_utf8(vbytes(&a["p"])).unwrap_or_else(|_| tool_error("path is not UTF-8")));
            *p = r.message;
        }
        "set_observe_flag" => {
            let mut r: CoapRequest<Ep> = CoapRequest { message: std::mem::take(p), response: None, source: None };
            r.set_observe_flag(if name == "register" { ObserveOption::Register } else { ObserveOption::Deregister });
            *p = r.message;
        }
        "set_content_format" => p.set_content_format(*ALL_CFS.iter().find(|m| cf_name(**m) == name).unwrap_or_else(|| tool_error("content format name"))),
        "t_set_code" | "t_add_option" | "t_set_payload" | "t_payload_with_len" | "t_truncate" | "t_mutate_options" => apply_trait(p, c),
        "set_code" => p.header.code = (a["v"].as_u64().unwrap() as u8).into(),
        "add_option" => p.add_option(CoapOption::from(a["num"].as_u64().unwrap() as u16), vbytes(&a["v"])),
        "clear_option" => p.clear_option(CoapOption::from(a["num"].as_u64().unwrap() as u16)),
        other => tool_error(&format!("unknown call {}", other)),
    }
}

/// the generic coap-message writer calls, through trait version 0.2 or 0.3 ("api")
fn apply_trait(p: &mut Packet, c: &Value) {
    let a = &c["a"];
    let v3 = a["api"].as_u64() == Some(3);
    let flip = |_n: CoapOption, v: &mut [u8]| {
        if let Some(b) = v.first_mut() {
            *b ^= 1;
        }
    };
    match c["f"].as_str().unwrap() {
        "t_set_code" => {
            let code: MessageClass = (a["v"].as_u64().unwrap() as u8).into();
            if v3 { coap_message_0_3::MinimalWritableMessage::set_code(p, code) } else { coap_message::MinimalWritableMessage::set_code(p, code) }
        }
        "t_add_option" => {
            let n = CoapOption::from(a["num"].as_u64().unwrap() as u16);
            let v = vbytes(&a["v"]);
            if v3 { coap_message_0_3::MinimalWritableMessage::add_option(p, n, &v).unwrap() } else { coap_message::MinimalWritableMessage::add_option(p, n, &v) }
        }
        "t_set_payload" => {
            let v = vbytes(&a["v"]);
            if v3 { coap_message_0_3::MinimalWritableMessage::set_payload(p, &v).unwrap() } else { coap_message::MinimalWritableMessage::set_payload(p, &v) }
        }
        "t_payload_with_len" => {
            let n = a["n"].as_u64().unwrap() as usize;
            if v3 { let _ = coap_message_0_3::MutableWritableMessage::payload_mut_with_len(p, n).unwrap().len(); } else { let _ = coap_message::MutableWritableMessage::payload_mut_with_len(p, n).len(); }
        }
        "t_truncate" => {
            let n = a["n"].as_u64().unwrap() as usize;
            if v3 { coap_message_0_3::MutableWritableMessage::truncate(p, n).unwrap() } else { coap_message::MutableWritableMessage::truncate(p, n) }
        }
        _ => {
            if v3 { coap_message_0_3::MutableWritableMessage::mutate_options(p, flip) } else { coap_message::MutableWritableMessage::mutate_options(p, flip) }
        }
    }
}

/// spec -> impl (C19): transitions of MC_Views {h, st, views, bytes}
pub fn replay_views(args: &Args) {
    let mut rep = Report::default();
    for v in read_vectors(args.s("in")) {
        rep.evaluated += 1;
        let mut p = Packet::new();
        let mut panicked = false;
        for c in v["h"].as_array().unwrap() {
            if guarded(|| apply_conv(&mut p, c)).is_none() {
                panicked = true;
                break;
            }
        }
        if panicked {
            rep.bad("C19", "accessor panicked", json!({"h": v["h"]}));
            continue;
        }
        let got = jpkt(&p);
        let st = &v["st"];
        let views = guarded(|| all_views(&p)).unwrap_or(json!({"panic": true}));
        let enc = crate::wire::out_to_bytes(&p, Some(None));
        let same_raw = ["ver", "typ", "code", "mid", "tok", "opts", "pay"].iter().all(|k| got[*k] == st[*k]);
        let t02 = flat02(&p);
        let t03 = flat03(&p);
        let trait_ok = t02 == t03 && t02["opts"] == views["flat"] && t02["code"] == st["code"] && t02["pay"] == st["pay"] && t02["cform"] == code_form(p.header.code);
        if !same_raw || views != v["views"] || enc["bytes"] != v["bytes"] || !trait_ok {
            rep.bad("C19", "accessor / raw state / encoded bytes / trait view disagree with Views.tla", json!({"h": v["h"], "expected_state": st, "got_state": got, "expected_views": v["views"], "got_views": views, "t02": t02, "t03": t03}));
        }
        if rep.evaluated % 9000 == 2 {
            rep.sample(json!({"h": v["h"], "views": views}));
        }
    }
    rep.write(args.s("out"));
}

fn err_of(v: &Value) -> HandlingError {
    let msg = String::from_utf8_lossy(&vbytes(&v["msg"])).to_string();
    if v["code"]["some"].as_bool().unwrap() {
        let b = v["code"]["v"].as_u64().unwrap() as u8;
        match MessageClass::from(b) {
            MessageClass::Response(r) => HandlingError::with_code(r, msg),
            _ => tool_error("error code is not a response code"),
        }
    } else {
        HandlingError { code: None, message: msg }
    }
}

fn jresp(r: &Option<CoapResponse>) -> Value {
    match r {
        None => json!({"some": false}),
        Some(r) => json!({"some": true, "v": jpkt(&r.message)}),
    }
}

/// spec -> impl (C07): serve steps of MC_Exchange {req, useErr, err, ret, resp, bytes}
pub fn replay_exchange(args: &Args) {
    let mut rep = Report::default();
    for v in read_vectors(args.s("in")) {
        rep.evaluated += 1;
        let reqp = vpkt(&v["req"]);
        let r = guarded(|| {
            let mut req = CoapRequest::from_packet(reqp.clone(), "ep".to_string());
            let mut ret = true;
            if v["useErr"].as_bool().unwrap() {
                ret = req.apply_from_error(err_of(&v["err"]));
            }
            (req, ret)
        });
        match r {
            None => rep.bad("C07", "reply preparation panicked", json!({"row": v})),
            Some((req, ret)) => {
                let got = jresp(&req.response);
                let exp = &v["resp"];
                let mut ok = got["some"] == exp["some"] && ret == v["ret"].as_bool().unwrap() && jpkt(&req.message)["mid"] == v["req"]["mid"];
                if ok && exp["some"] == true {
                    ok = ["ver", "typ", "code", "mid", "tok", "opts", "pay"].iter().all(|k| got["v"][*k] == exp["v"][*k]);
                    let enc = crate::wire::out_to_bytes(&req.response.as_ref().unwrap().message, Some(None));
                    ok = ok && enc["bytes"] == v["bytes"];
                }
                if !ok {
                    rep.bad("C07", "prepared reply differs from Views!NewResponse / ApplyFromError", json!({"row": v, "got": got, "ret": ret}));
                }
                if rep.evaluated % 4000 == 1 {
                    rep.sample(json!({"req": v["req"], "reply": got}));
                }
            }
        }
    }
    rep.write(args.s("out"));
}

// ---- recorders ------------------------------------------------------------------------------

fn ev_views(out: &mut Out, p: &Packet) {
    let views = guarded(|| all_views(p));
    out.ev(json!({"op": "views", "st": jpkt(p), "cform": code_form(p.header.code), "panicked": views.is_none(), "views": views.unwrap_or(json!({})), "t02": flat02(p), "t03": flat03(p)}));
}

fn copy02<S: coap_message::ReadableMessage, D: coap_message::MinimalWritableMessage>(src: &S, dst: &mut D) {
    use coap_message::MessageOption;
    use std::convert::TryFrom;
    dst.set_code(D::Code::try_from(src.code().into()).ok().unwrap());
    for o in src.options() {
        dst.add_option(D::OptionNumber::try_from(o.number()).ok().unwrap(), o.value());
    }
    dst.set_payload(src.payload());
}

fn copy03<S: coap_message_0_3::ReadableMessage, D: coap_message_0_3::MinimalWritableMessage>(src: &S, dst: &mut D) {
    use coap_message_0_3::{Code, MessageOption, OptionNumber};
    dst.set_code(D::Code::new(src.code().into()).ok().unwrap());
    for o in src.options() {
        dst.add_option(D::OptionNumber::new(o.number()).ok().unwrap(), o.value()).ok().unwrap();
    }
    dst.set_payload(src.payload()).ok().unwrap();
}

/// a copy between two messages of the same type: code and option numbers handed over as they are read
fn direct02(src: &Packet, dst: &mut Packet) {
    use coap_message::{MessageOption, MinimalWritableMessage, ReadableMessage};
    MinimalWritableMessage::set_code(dst, ReadableMessage::code(src));
    for o in ReadableMessage::options(src) {
        MinimalWritableMessage::add_option(dst, o.number().into(), o.value());
    }
    MinimalWritableMessage::set_payload(dst, ReadableMessage::payload(src));
}

fn direct03(src: &Packet, dst: &mut Packet) {
    use coap_message_0_3::{MessageOption, MinimalWritableMessage, ReadableMessage};
    MinimalWritableMessage::set_code(dst, ReadableMessage::code(src));
    for o in ReadableMessage::options(src) {
        MinimalWritableMessage::add_option(dst, o.number().into(), o.value()).unwrap();
    }
    MinimalWritableMessage::set_payload(dst, ReadableMessage::payload(src)).unwrap();
}

pub fn rec_views(args: &Args) {
    let seed = args.u("seed", 1);
    let thorough = args.thorough();
    let mut r = Rng::new(seed ^ 0xC19);
    let mut out = Out::create(args.s("out"));
    // all 256 code bytes for both getters
    for b in 0..=255u8 {
        let mut p = Packet::new();
        p.header.code = b.into();
        ev_views(&mut out, &p);
        // the same byte held as a hand-built Reserved value (a different stored value when the byte is named)
        p.header.code = MessageClass::Reserved(b);
        ev_views(&mut out, &p);
    }
    // the catch-all method / status as stored values
    for code in [MessageClass::Request(RequestType::UnKnown), MessageClass::Response(ResponseType::UnKnown)] {
        let mut p = crate::wire::random_message(&mut r, 3, 4, 4);
        p.header.code = code;
        ev_views(&mut out, &p);
    }
    // raw Observe option bytes of length 0..6, raw Content-Format bytes, raw Uri-Path segments
    for len in 0..=6usize {
        for tail in [0u8, 1, 2, 255] {
            for lead in [0u8, 1] {
                let mut v = vec![lead; len];
                if len > 0 {
                    v[len - 1] = tail;
                }
                let mut p = Packet::new();
                p.add_option(CoapOption::Observe, v.clone());
                p.add_option(CoapOption::Observe, vec![1]);
                ev_views(&mut out, &p);
                let mut p = Packet::new();
                p.add_option(CoapOption::ContentFormat, v.clone());
                ev_views(&mut out, &p);
            }
        }
    }
    // two and three stored values under the options the typed getters read (possible through the raw
    // calls and the decoder): which value a getter looks at, and what it does when that one is unusable
    let raws: [&[u8]; 13] = [&[], &[0], &[1], &[50], &[0, 50], &[1, 0], &[255, 255], &[1, 2, 3], &[0, 0, 50], &[1, 2, 3, 4, 5], &[1, 0, 0, 0], &[2, 0, 0, 1], &[0, 0, 0, 1]];
    for opt in [CoapOption::ContentFormat, CoapOption::Observe, CoapOption::Accept] {
        for a in raws {
            for b in raws {
                let mut p = Packet::new();
                p.add_option(opt, a.to_vec());
                p.add_option(opt, b.to_vec());
                ev_views(&mut out, &p);
                if a.len() + b.len() == 3 {
                    p.add_option(opt, vec![41]);
                    ev_views(&mut out, &p);
                }
            }
        }
    }
    for id in [0u16, 40, 41, 50, 60, 110, 255, 256, 11542, 11543, 65535, 1, 15, 10003] {
        let mut p = Packet::new();
        p.add_option(CoapOption::ContentFormat, coap_lite::option_value::OptionValueU16(id).into());
        ev_views(&mut out, &p);
    }
    // setters on random prior states: set twice, set after raw add, every named value
    let path_alpha = ['/', 'a', '.', 'é', 'b', '😁', ' ', '%'];
    let n = if thorough { 6000 } else { 600 };
    for i in 0..n {
        let mut p = crate::wire::random_message(&mut r, 4, 6, 4);
        if r.chance(1, 2) {
            p.add_option(CoapOption::UriPath, if r.chance(1, 3) { vec![0xFF, 0xFE] } else { b"old".to_vec() });
        }
        if r.chance(1, 2) {
            p.add_option(CoapOption::ContentFormat, if r.chance(1, 2) { vec![50] } else { vec![1, 2, 3] });
        }
        if r.chance(1, 2) {
            let l = r.below(6) as usize;
            p.add_option(CoapOption::Observe, r.bytes(l));
        }
        for _ in 0..r.range(1, 3) {
            let call = match (i + r.below(5) as usize) % 5 {
                0 => json!({"f": "set_method", "a": {"name": if r.chance(1, 6) { "UnKnown" } else { method_name(*r.pick(ALL_METHODS)) }}}),
                1 => json!({"f": "set_status", "a": {"name": if r.chance(1, 6) { "UnKnown" } else { response_name(*r.pick(ALL_RESPONSES)) }}}),
                2 => {
                    let mut path: String = (0..r.below(9)).map(|_| *r.pick(&path_alpha)).collect();
                    if r.chance(1, 10) {
                        // hundreds of segments, a segment longer than 255 bytes
                        path = match r.below(3) { 0 => "a/".repeat(300), 1 => format!("x/{}/y", "é".repeat(200)), _ => format!("{}/", "s".repeat(256)) };
                    }
                    json!({"f": "set_path", "a": {"p": jbytes(path.as_bytes())}})
                }
                3 => json!({"f": "set_observe_flag", "a": {"name": *r.pick(&["register", "deregister"])}}),
                _ => json!({"f": "set_content_format", "a": {"name": cf_name(*r.pick(ALL_CFS))}}),
            };
            let pre = jpkt(&p);
            let preform = code_form(p.header.code);
            let ok = guarded(|| apply_conv(&mut p, &call)).is_some();
            out.ev(json!({"op": "set", "f": call["f"], "a": call["a"], "pre": pre, "preform": preform, "post": jpkt(&p), "postform": code_form(p.header.code), "panicked": !ok}));
            ev_views(&mut out, &p);
        }
    }
    // messages copied through the generic interfaces (both trait versions, own copy and set_from_message)
    for _ in 0..(if thorough { 3000 } else { 300 }) {
        let mut src = crate::wire::random_message(&mut r, 6, 10, 10);
        if r.chance(1, 3) {
            src.clear_option(CoapOption::ETag);
            src.add_option(CoapOption::ETag, vec![1]);
            src.clear_option(CoapOption::ETag);
        }
        match r.below(6) {
            0 => src.header.code = MessageClass::Request(RequestType::UnKnown),
            1 => src.header.code = MessageClass::Response(ResponseType::UnKnown),
            2 => src.header.code = MessageClass::Reserved(u8::from(src.header.code)),
            _ => {}
        }
        for api in ["copy02", "copy03", "direct02", "direct03", "set_from_message02", "set_from_message03"] {
            let mut dst = Packet::new();
            let ok = guarded(|| match api {
                "copy02" => copy02(&src, &mut dst),
                "copy03" => copy03(&src, &mut dst),
                "direct02" => direct02(&src, &mut dst),
                "direct03" => direct03(&src, &mut dst),
                "set_from_message02" => coap_message::MinimalWritableMessage::set_from_message(&mut dst, &src),
                _ => coap_message_0_3::MinimalWritableMessage::set_from_message(&mut dst, &src).unwrap(),
            })
            .is_some();
            out.ev(json!({"op": "copy", "api": api, "src": jpkt(&src), "srcform": code_form(src.header.code), "dst": jpkt(&dst), "dstform": code_form(dst.header.code), "panicked": !ok}));
        }
    }
    let n = out.finish();
    println!("{}", json!({"events": n}));
}

fn ev_response(out: &mut Out, reqp: &Packet, r: &mut Rng, errs: &[Value]) {
    let made = guarded(|| CoapRequest::from_packet(reqp.clone(), "ep".to_string()));
    let mut req = match made {
        None => {
            out.ev(json!({"op": "new_response", "req": jpkt(reqp), "panicked": true, "resp": {"some": false}, "reqafter": jpkt(reqp), "enc": {"k": "na"}}));
            return;
        }
        Some(x) => x,
    };
    let enc = match &req.response { Some(x) => crate::wire::out_to_bytes(&x.message, Some(None)), None => json!({"k": "na"}) };
    out.ev(json!({"op": "new_response", "req": jpkt(reqp), "panicked": false, "resp": jresp(&req.response), "reqafter": jpkt(&req.message), "enc": enc}));
    // optionally give the prepared reply some state before the error is applied
    if let Some(resp) = req.response.as_mut() {
        if r.chance(1, 2) {
            resp.message.add_option(CoapOption::ETag, vec![9, 9]);
        }
        if r.chance(1, 3) {
            resp.message.add_option(CoapOption::MaxAge, vec![60]);
            resp.message.payload = b"prior".to_vec();
        }
        // builder history on the very options the error path writes: a Content-Format that was set and
        // withdrawn, raw values (empty, several, over-long), an error applied before
        match r.below(8) {
            0 => {
                resp.message.add_option(CoapOption::ContentFormat, vec![50]);
                resp.message.clear_option(CoapOption::ContentFormat);
            }
            1 => resp.message.add_option(CoapOption::ContentFormat, vec![]),
            2 => {
                resp.message.add_option(CoapOption::ContentFormat, vec![]);
                resp.message.add_option(CoapOption::ContentFormat, vec![]);
            }
            3 => {
                resp.message.add_option(CoapOption::ContentFormat, vec![1, 2, 3]);
                resp.message.add_option(CoapOption::ContentFormat, vec![50]);
            }
            4 => resp.message.set_option(CoapOption::ContentFormat, std::collections::LinkedList::new()),
            5 => {
                let first = r.pick(errs).clone();
                let _ = guarded(|| req.apply_from_error(err_of(&first)));
            }
            _ => {}
        }
    }
    let e = r.pick(errs).clone();
    let pre = jresp(&req.response);
    let ret = guarded(|| req.apply_from_error(err_of(&e)));
    out.ev(json!({"op": "apply_error", "req": jpkt(reqp), "pre": pre, "err": e, "panicked": ret.is_none(), "ret": ret.unwrap_or(false), "post": jresp(&req.response)}));
}

pub fn rec_response(args: &Args) {
    let seed = args.u("seed", 1);
    let thorough = args.thorough();
    let mut r = Rng::new(seed ^ 0xC07);
    let mut out = Out::create(args.s("out"));
    // all HandlingError shapes
    let mut errs: Vec<Value> = vec![json!({"code": {"some": false}, "msg": jbytes(b"Not handled")})];
    for e in [HandlingError::not_found(), HandlingError::bad_request("bad"), HandlingError::internal("boom"), HandlingError::method_not_supported(), HandlingError::not_handled()] {
        errs.push(match e.code {
            Some(c) => json!({"code": {"some": true, "v": u8::from(MessageClass::Response(c))}, "msg": jbytes(e.message.as_bytes())}),
            None => json!({"code": {"some": false}, "msg": jbytes(e.message.as_bytes())}),
        });
    }
    for c in ALL_RESPONSES {
        errs.push(json!({"code": {"some": true, "v": u8::from(MessageClass::Response(*c))}, "msg": jbytes("détail".as_bytes())}));
    }
    // the diagnostic text is whatever the error carries: nothing at all, or more than a block
    for code in [0x80u8, 0x84, 0xA0] {
        errs.push(json!({"code": {"some": true, "v": code}, "msg": []}));
        errs.push(json!({"code": {"some": true, "v": code}, "msg": jbytes("x".repeat(300).as_bytes())}));
    }
    errs.push(json!({"code": {"some": false}, "msg": []}));
    let mut mids: Vec<u16> = vec![0, 1, 255, 256, 0x7FFF, 0x8000, 0xFFFE, 0xFFFF];
    mids.extend((0..16).map(|b| 1u16 << b));
    for _ in 0..(if thorough { 200 } else { 8 }) {
        mids.push(r.next() as u16);
    }
    let mut swept = 0u64;
    let mut forwarded = 0u64;
    for typ in 0..4u64 {
        for ver in 0..4u8 {
            for tkl in 0..=8usize {
                for &mid in &mids {
                    let mut p = crate::wire::random_message(&mut r, 3, 8, 8);
                    p.header.set_version(ver);
                    p.header.set_type(num_type(typ));
                    p.header.message_id = mid;
                    p.set_token(r.bytes(tkl));
                    ev_response(&mut out, &p, &mut r, &errs);
                    // the same request with a header whose token-length nibble does not match the token (the
                    // public header field replaced wholesale, as a forwarding node might)
                    if mid % 3 == 0 {
                        let mut q = p.clone();
                        q.header.set_token_length(((tkl + 1 + (mid as usize % 7)) % 9) as u8);
                        ev_response(&mut out, &q, &mut r, &errs);
                    }
                }
                // native sweep of all message ids for this shape with anomaly forwarding:
                // the relation is C07's own (reply id / token / type / version vs request)
                let tok = r.bytes(tkl);
                for mid in 0..=65535u16 {
                    let mut p = Packet::new();
                    p.header.set_version(ver);
                    p.header.set_type(num_type(typ));
                    p.header.message_id = mid;
                    p.set_token(tok.clone());
                    swept += 1;
                    let fine = match guarded(|| CoapResponse::new(&p)) {
                        None => false,
                        Some(None) => typ >= 2,
                        Some(Some(resp)) => {
                            typ < 2
                                && resp.message.header.message_id == mid
                                && resp.message.get_token() == &tok[..]
                                && resp.message.header.get_version() == 1
                                && type_num(resp.message.header.get_type()) as u64 == if typ == 0 { 2 } else { 1 }
                                && resp.message.options().len() == 0
                                && resp.message.payload.is_empty()
                                && u8::from(resp.message.header.code) == 0x45
                        }
                    };
                    if !fine {
                        if forwarded < 20000 {
                            forwarded += 1;
                            ev_response(&mut out, &p, &mut r, &errs);
                        }
                    }
                }
            }
        }
    }
    // long diagnostics: the error's text is the reply's payload byte for byte whatever its length - around the
    // default datagram size for every token length, and far beyond it (multi-byte characters included)
    for tkl in 0..=8usize {
        let mut lens: Vec<usize> = (1255..=1290).collect();
        lens.extend([1023, 1024, 1152, 2000, 4096]);
        if tkl % 4 == 0 {
            lens.push(70_000);
        }
        for (i, len) in lens.into_iter().enumerate() {
            let mut p = Packet::new();
            p.header.set_type(num_type((i % 2) as u64));
            p.header.message_id = 0x1234;
            p.set_token(r.bytes(tkl));
            let msg: String = if i % 3 == 2 { "é".repeat(len / 2) + &"z".repeat(len % 2) } else { "d".repeat(len) };
            let long = vec![json!({"code": {"some": true, "v": if i % 2 == 0 { 0x80u8 } else { 0xA0 }}, "msg": jbytes(msg.as_bytes())})];
            ev_response(&mut out, &p, &mut r, &long);
        }
    }
    let n = out.finish();
    println!("{}", json!({"events": n, "swept_native": swept, "forwarded": forwarded}));
}

#[allow(dead_code)]
fn _keep(_: ContentFormat) {}
