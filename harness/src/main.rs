#[cfg(feature = "std")]
mod block;
#[cfg(feature = "std")]
mod blockval;
mod hooks;
mod link;
mod observe;
mod optval;
mod registry;
#[cfg(feature = "std")]
mod server;
#[cfg(feature = "std")]
mod splice;
mod util;
mod views;
mod wire;

use util::*;

fn main() {
    let argv: Vec<String> = std::env::args().collect();
    if argv.len() < 3 {
        tool_error("usage: clv <rec|replay> <component> [--key value]...");
    }
    install_quiet_panic_hook();
    start_hang_watchdog();
    hooks::install();
    let args = Args::parse(&argv[3..]);
    match (argv[1].as_str(), argv[2].as_str()) {
        ("replay", "wire") => wire::replay_wire(&args),
        ("replay", "build") => wire::replay_build(&args),
        ("replay", "registry") => registry::replay_registry(&args),
        #[cfg(feature = "std")]
        ("replay", "blockvalue") => blockval::replay_blockvalue(&args),
        #[cfg(feature = "std")]
        ("replay", "splice") => splice::replay_splice(&args),
        ("replay", "codetext") => registry::replay_codetext(&args),
        ("replay", "optval") => optval::replay_optval(&args),
        ("rec", "optval") => optval::rec_optval(&args),
        ("replay", "observe") => observe::replay_observe(&args),
        ("rec", "observe") => observe::rec_observe(&args),
        ("replay", "linkwrite") => link::replay_linkwrite(&args),
        ("replay", "linkparse") => link::replay_linkparse(&args),
        ("replay", "linkfault") => link::replay_linkfault(&args),
        ("rec", "link") => link::rec_link(&args),
        ("replay", "views") => views::replay_views(&args),
        ("replay", "exchange") => views::replay_exchange(&args),
        ("rec", "views") => views::rec_views(&args),
        ("rec", "response") => views::rec_response(&args),
        #[cfg(feature = "std")]
        ("rec", "block2") => block::rec_block2(&args),
        #[cfg(feature = "std")]
        ("rec", "block1") => block::rec_block1(&args),
        #[cfg(feature = "std")]
        ("rec", "budget") => block::rec_budget(&args),
        #[cfg(feature = "std")]
        ("rec", "hostile") => block::rec_hostile(&args),
        #[cfg(feature = "std")]
        ("rec", "isolation") => block::rec_isolation(&args),
        #[cfg(feature = "std")]
        ("rec", "mixed") => block::rec_mixed(&args),
        #[cfg(feature = "std")]
        ("rec", "expiry") => block::rec_expiry(&args),
        #[cfg(feature = "std")]
        ("rec", "script") => block::rec_script(&args),
        #[cfg(feature = "std")]
        ("rec", "server") => server::rec_server(&args),
        #[cfg(feature = "std")]
        ("rec", "server-script") => server::rec_server_script(&args),
        #[cfg(feature = "std")]
        ("rec", "observe-script") => server::rec_observe_script(&args),
        #[cfg(feature = "std")]
        ("rec", "observe-server") => server::rec_observe_server(&args),
        ("rec", "wire-bytes") => wire::rec_wire_bytes(&args),
        ("rec", "wire-build") => wire::rec_wire_build(&args),
        ("rec", "wire-limit") => wire::rec_wire_limit(&args),
        (a, b) => tool_error(&format!("unknown command {} {}", a, b)),
    }
}
