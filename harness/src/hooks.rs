//! Access to the cfg(coap_lite_verif) hooks of the crate under test.
use serde_json::{json, Value};
use std::cell::RefCell;

thread_local! {
    static COPIES: RefCell<Option<Vec<Value>>> = RefCell::new(None);
}

#[allow(dead_code)]
fn sink(site: u8, capacity: usize, len: usize, n: usize) {
    COPIES.with(|c| {
        if let Some(v) = c.borrow_mut().as_mut() {
            if v.len() < 4096 {
                v.push(json!([site, capacity.min(i32::MAX as usize), len.min(i32::MAX as usize), n.min(i32::MAX as usize)]));
            }
        }
    })
}

pub fn install() {
    coap_lite::verif::set_copy_sink(sink);
}

pub fn copy_log_start() {
    COPIES.with(|c| *c.borrow_mut() = Some(Vec::new()));
}

pub fn copy_log_take() -> Value {
    COPIES.with(|c| Value::Array(c.borrow_mut().take().unwrap_or_default()))
}
