//! C06: typed option values.  Replay of MC_OptionValue tables; recorder for Trace_Wire.
use crate::util::*;
use coap_lite::option_value::{OptionValueString, OptionValueU16, OptionValueU32, OptionValueU64, OptionValueU8};
use coap_lite::{CoapOption, Packet};
use serde_json::{json, Value};
use std::collections::LinkedList;
use std::convert::TryFrom;

pub fn uint_enc(w: u64, x: u64) -> Option<Vec<u8>> {
    guarded(|| match w {
        1 => Vec::<u8>::from(OptionValueU8(x as u8)),
        2 => Vec::<u8>::from(OptionValueU16(x as u16)),
        4 => Vec::<u8>::from(OptionValueU32(x as u32)),
        _ => Vec::<u8>::from(OptionValueU64(x)),
    })
}

/// Some(Some(v)) = ok, Some(None) = error, None = panic
pub fn uint_dec(w: u64, b: &[u8]) -> Option<Option<u64>> {
    let b = b.to_vec();
    guarded(|| match w {
        1 => OptionValueU8::try_from(b).ok().map(|v| v.0 as u64),
        2 => OptionValueU16::try_from(b).ok().map(|v| v.0 as u64),
        4 => OptionValueU32::try_from(b).ok().map(|v| v.0 as u64),
        _ => OptionValueU64::try_from(b).ok().map(|v| v.0),
    })
}

pub fn str_dec(b: &[u8]) -> Option<Option<Vec<u8>>> {
    let b = b.to_vec();
    guarded(|| OptionValueString::try_from(b).ok().map(|s| Vec::<u8>::from(s)))
}

pub fn replay_optval(args: &Args) {
    let mut rep = Report::default();
    for line in read_vectors(args.s("in")) {
        for v in line["rows"].as_array().unwrap() {
            rep.evaluated += 1;
            let t = v["t"].as_str().unwrap();
            rep.count(t);
            match t {
                "enc" => {
                    let w = v["w"].as_u64().unwrap();
                    let x = vdigits(&v["digits"]);
                    let got = uint_enc(w, x);
                    if got.as_deref() != Some(&vbytes(&v["enc"])[..]) {
                        rep.bad("C06", "uint value is not the minimal big-endian form", json!({"row": v, "got": got.map(|g| jbytes(&g))}));
                    }
                }
                "dec" => {
                    let w = v["w"].as_u64().unwrap();
                    let got = uint_dec(w, &vbytes(&v["b"]));
                    let ok = match (got, v["ok"].as_bool().unwrap()) {
                        (Some(None), false) => true,
                        (Some(Some(x)), true) => x == vdigits(&v["digits"]),
                        _ => false,
                    };
                    if !ok {
                        rep.bad("C06", "uint decode differs (accept up to the width, leading zeros included; reject longer)", json!({"row": v, "got": format!("{:?}", got)}));
                    }
                }
                _ => {
                    let b = vbytes(&v["b"]);
                    let got = str_dec(&b);
                    let ok = match (&got, v["ok"].as_bool().unwrap()) {
                        (Some(None), false) => true,
                        (Some(Some(x)), true) => *x == b,
                        _ => false,
                    };
                    if !ok {
                        rep.bad("C06", "string option value: UTF-8 validity / identity", json!({"row": v, "got": format!("{:?}", got)}));
                    }
                }
            }
            if rep.evaluated % 40_000 == 11 {
                rep.sample(v.clone());
            }
        }
    }
    rep.write(args.s("out"));
}

fn uint_res(w: u64, b: &[u8]) -> Value {
    match uint_dec(w, b) {
        None => json!({"k": "panic", "ok": false}),
        Some(None) => json!({"k": "err", "ok": false}),
        Some(Some(x)) => json!({"k": "ok", "ok": true, "digits": digits(x, w as usize)}),
    }
}

/// typed getters of the packet for every number in `nums` at width `w`
fn typed_proj(p: &Packet, nums: &[u16], w: u64) -> (Value, Value) {
    let mut out = vec![];
    for &n in nums {
        let o = CoapOption::from(n);
        let all: Option<Vec<Value>> = match w {
            1 => p.get_options_as::<OptionValueU8>(o).map(|l| l.into_iter().map(|r| match r { Ok(v) => json!({"ok": true, "digits": digits(v.0 as u64, 1)}), Err(_) => json!({"ok": false}) }).collect()),
            2 => p.get_options_as::<OptionValueU16>(o).map(|l| l.into_iter().map(|r| match r { Ok(v) => json!({"ok": true, "digits": digits(v.0 as u64, 2)}), Err(_) => json!({"ok": false}) }).collect()),
            4 => p.get_options_as::<OptionValueU32>(o).map(|l| l.into_iter().map(|r| match r { Ok(v) => json!({"ok": true, "digits": digits(v.0 as u64, 4)}), Err(_) => json!({"ok": false}) }).collect()),
            _ => p.get_options_as::<OptionValueU64>(o).map(|l| l.into_iter().map(|r| match r { Ok(v) => json!({"ok": true, "digits": digits(v.0, 8)}), Err(_) => json!({"ok": false}) }).collect()),
        };
        let strs: Vec<Value> = p.get_options_as::<OptionValueString>(o).map(|l| l.into_iter().map(|r| json!(r.is_ok())).collect()).unwrap_or_default();
        let first = match w {
            1 => p.get_first_option_as::<OptionValueU8>(o).map(|r| r.ok().map(|v| digits(v.0 as u64, 1))),
            2 => p.get_first_option_as::<OptionValueU16>(o).map(|r| r.ok().map(|v| digits(v.0 as u64, 2))),
            4 => p.get_first_option_as::<OptionValueU32>(o).map(|r| r.ok().map(|v| digits(v.0 as u64, 4))),
            _ => p.get_first_option_as::<OptionValueU64>(o).map(|r| r.ok().map(|v| digits(v.0, 8))),
        };
        let first = match first {
            None => json!({"some": false}),
            Some(None) => json!({"some": true, "ok": false}),
            Some(Some(d)) => json!({"some": true, "ok": true, "digits": d}),
        };
        out.push(json!({"num": n, "w": w, "some": all.is_some(), "res": all.unwrap_or_default(), "strs": strs, "first": first}));
    }
    let obs = match p.get_observe_value() {
        None => json!({"some": false}),
        Some(Err(_)) => json!({"some": true, "ok": false}),
        Some(Ok(x)) => json!({"some": true, "ok": true, "digits": digits(x as u64, 4)}),
    };
    (Value::Array(out), obs)
}

fn random_value(r: &mut Rng, w: usize) -> u64 {
    let x = match r.below(4) {
        0 => r.next(),
        1 => 1u64 << r.below(64),
        2 => (1u64 << r.below(64)).wrapping_sub(1),
        _ => 256u64.pow(r.below(8) as u32).wrapping_add(r.below(3)).wrapping_sub(1),
    };
    if w == 8 { x } else { x & ((1u64 << (8 * w)) - 1) }
}

pub fn rec_optval(args: &Args) {
    let seed = args.u("seed", 1);
    let thorough = args.thorough();
    let mut r = Rng::new(seed ^ 0xC06);
    let mut out = Out::create(args.s("out"));
    let n = if thorough { 20000 } else { 1500 };
    for _ in 0..n {
        let w = *r.pick(&[4u64, 8]);
        let x = random_value(&mut r, w as usize);
        let got = uint_enc(w, x);
        out.ev(json!({"op": "uint_enc", "w": w, "digits": digits(x, w as usize),
                      "out": match got { Some(b) => json!({"k": "ok", "bytes": jbytes(&b)}), None => json!({"k": "panic"}) }}));
        let len = r.below(11) as usize;
        let mut b = r.bytes(len);
        if r.chance(1, 3) {
            for k in 0..r.below(len as u64 + 1) as usize {
                b[k] = 0;
            }
        }
        let w = *r.pick(&[1u64, 2, 4, 8]);
        out.ev(json!({"op": "uint_dec", "w": w, "in": jbytes(&b), "out": uint_res(w, &b)}));
    }
    // lengths at which a length kept in a narrower integer would wrap (256, 512, 65536 plus 0..width):
    // far too long for any width, whatever the bytes are
    for base in [255usize, 256, 512, 65536] {
        for extra in [0usize, 1, 2, 4, 8, 9] {
            for lead_zero in [false, true] {
                let mut b = r.bytes(base + extra);
                if lead_zero {
                    for k in 0..base {
                        b[k] = 0;
                    }
                }
                for w in [1u64, 2, 4, 8] {
                    out.ev(json!({"op": "uint_dec", "w": w, "in": jbytes(&b), "out": uint_res(w, &b)}));
                }
            }
        }
    }
    // strings: random Unicode, and byte-level damage
    for _ in 0..n {
        let len = r.below(12);
        let s: String = (0..len).map(|_| {
            let c = match r.below(5) { 0 => r.below(0x80) as u32, 1 => r.range(0x80, 0x7FF) as u32, 2 => r.range(0x800, 0xFFFF) as u32, 3 => r.range(0x10000, 0x10FFFF) as u32, _ => *r.pick(&[0x7Fu32, 0x80, 0x7FF, 0x800, 0xD7FF, 0xE000, 0xFFFF, 0x10000, 0x10FFFF]) };
            char::from_u32(c).unwrap_or('\u{FFFD}')
        }).collect();
        let mut b = s.into_bytes();
        if r.chance(1, 2) && !b.is_empty() {
            let k = r.below(b.len() as u64) as usize;
            match r.below(3) { 0 => b[k] = *r.pick(&[0x80u8, 0xBF, 0xC0, 0xC1, 0xED, 0xF4, 0xF5, 0xFF, 0xE0, 0xF0]), 1 => { b.remove(k); } _ => b.truncate(k) }
        }
        let o = match str_dec(&b) { None => json!({"k": "panic"}), Some(None) => json!({"k": "err"}), Some(Some(x)) => json!({"k": "ok", "bytes": jbytes(&x)}) };
        out.ev(json!({"op": "str_dec", "in": jbytes(&b), "out": o}));
    }
    // typed builder sequences: the typed setters/getters on a message, element by element
    // the numbers an episode works on: Observe and Content-Format (which have setters of their own) plus a draw
    // from every registered option number and a few unregistered ones - no number is special to the typed API
    let all_nums: [u16; 27] = [0, 1, 3, 4, 5, 6, 7, 8, 9, 11, 12, 14, 15, 17, 20, 23, 27, 28, 35, 39, 60, 258, 2, 2000, 65000, 65535, 13];
    for ep in 0..(if thorough { 3000 } else { 500 }) {
        out.ev(json!({"op": "reset"}));
        let mut p = Packet::new();
        let nums: [u16; 6] = if ep % 5 == 0 { [6, 12, 14, 60, 2000, 0] } else { [6, 12, *r.pick(&all_nums), *r.pick(&all_nums), *r.pick(&all_nums), *r.pick(&all_nums)] };
        // half of the episodes concentrate on two numbers so that multi-valued options meet the setters
        let focus: [u16; 2] = [*r.pick(&[6u16, nums[2]]), *r.pick(&[12u16, 60, nums[3]])];
        for _ in 0..r.range(1, 12) {
            let num = if ep % 2 == 0 { *r.pick(&focus) } else { *r.pick(&nums) };
            let w = *r.pick(&[1u64, 2, 4, 8]);
            let (f, a): (&str, Value) = match r.below(7) {
                0 | 1 => {
                    let x = random_value(&mut r, w as usize);
                    let o = CoapOption::from(num);
                    match w { 1 => p.add_option_as(o, OptionValueU8(x as u8)), 2 => p.add_option_as(o, OptionValueU16(x as u16)), 4 => p.add_option_as(o, OptionValueU32(x as u32)), _ => p.add_option_as(o, OptionValueU64(x)) }
                    ("add_option_uint", json!({"num": num, "w": w, "digits": digits(x, w as usize)}))
                }
                2 => {
                    let mut s: String = (0..r.below(5)).map(|_| *r.pick(&['a', 'é', '/', '😁', ' ', '\u{FEFF}', '\u{0}', '\u{D7FF}', '\u{E000}', '\u{10FFFF}', 'A', 'Z', 'É', '.', '%', '0'])).collect();
                    if r.chance(1, 12) {
                        s = "é😁".repeat(60 + r.below(10) as usize); // longer than 255 bytes
                    }
                    p.add_option_as(CoapOption::from(num), OptionValueString(s.clone()));
                    ("add_option_str", json!({"num": num, "v": jbytes(s.as_bytes())}))
                }
                3 => {
                    let k = r.below(4);
                    let xs: Vec<u64> = (0..k).map(|_| random_value(&mut r, w as usize)).collect();
                    let o = CoapOption::from(num);
                    match w {
                        1 => p.set_options_as(o, xs.iter().map(|x| OptionValueU8(*x as u8)).collect::<LinkedList<_>>()),
                        2 => p.set_options_as(o, xs.iter().map(|x| OptionValueU16(*x as u16)).collect::<LinkedList<_>>()),
                        4 => p.set_options_as(o, xs.iter().map(|x| OptionValueU32(*x as u32)).collect::<LinkedList<_>>()),
                        _ => p.set_options_as(o, xs.iter().map(|x| OptionValueU64(*x)).collect::<LinkedList<_>>()),
                    }
                    ("set_options_uint", json!({"num": num, "w": w, "ds": xs.iter().map(|x| digits(*x, w as usize)).collect::<Vec<_>>()}))
                }
                4 => {
                    // half of the time with the very number the getter reports now (the stored bytes may be a
                    // padded encoding of it, put there by a raw call or a peer: the setter must still store
                    // the minimal form)
                    let mut x = random_value(&mut r, 4) as u32;
                    if r.chance(1, 2) {
                        if let Some(Ok(cur)) = p.get_observe_value() {
                            x = cur;
                        }
                    }
                    p.set_observe_value(x);
                    ("set_observe_value", json!({"digits": digits(x as u64, 4)}))
                }
                5 => {
                    let len = *r.pick(&[0usize, 1, 2, 3, 4, 5, 8, 9]);
                    let mut b = r.bytes(len);
                    if num == 6 && r.chance(1, 2) {
                        b = r.pick(&[&[0][..], &[0, 0, 5][..], &[0, 1, 0, 0][..], &[0, 0, 0, 0][..], &[0, 255][..], &[0, 0, 1, 0, 0][..]]).to_vec();
                    }
                    if num == 12 && r.chance(1, 2) {
                        b = r.pick(&[&[][..], &[0][..], &[50][..], &[0, 50][..], &[41][..], &[1, 2, 3][..], &[0, 0, 50][..], &[45, 22][..]]).to_vec();
                    }
                    p.add_option(CoapOption::from(num), b.clone());
                    ("add_option", json!({"num": num, "v": jbytes(&b)}))
                }
                _ => {
                    p.clear_option(CoapOption::from(num));
                    ("clear_option", json!({"num": num}))
                }
            };
            let vw = *r.pick(&[1u64, 2, 4, 8]);
            let (typed, obs) = typed_proj(&p, &nums, vw);
            let enc = crate::wire::out_to_bytes(&p, Some(None));
            let dec = if enc["k"] == "ok" { crate::wire::out_from_bytes(&vbytes(&enc["bytes"])).0 } else { json!({"k": "na"}) };
            let cf = match p.get_content_format() { None => json!({"some": false}), Some(c) => json!({"some": true, "id": usize::from(c)}) };
            out.ev(json!({"op": "call", "f": f, "a": a, "panicked": false, "st": jpkt(&p), "enc": enc, "dec": dec, "typed": typed, "obs": obs, "cf": cf}));
        }
    }
    let n = out.finish();
    println!("{}", json!({"events": n}));
}
