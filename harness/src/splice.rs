//! Growth: the public function `extending_splice` against SpliceRange (BlockHandler.tla); the complete
//! table of MC_Splice is replayed, with the range given as `a..b` and, where it exists, as `a..=b-1`.
use crate::util::*;
use coap_lite::block_handler::extending_splice;
use serde_json::{json, Value};

fn run(dst: &[u8], a: usize, b: usize, inclusive: bool, src: &[u8], maxres: usize) -> (Value, Vec<u8>) {
    let mut d = dst.to_vec();
    let r = guarded(|| {
        let mut d2 = d.clone();
        let k = if inclusive {
            extending_splice(&mut d2, a..=b - 1, src.iter().copied(), maxres).map(|s| drop(s)).is_ok()
        } else {
            extending_splice(&mut d2, a..b, src.iter().copied(), maxres).map(|s| drop(s)).is_ok()
        };
        (k, d2)
    });
    match r {
        None => (json!("panic"), d),
        Some((true, d2)) => {
            d = d2;
            (json!("ok"), d)
        }
        Some((false, d2)) => (json!("err"), d2),
    }
}

pub fn replay_splice(args: &Args) {
    let mut rep = Report::default();
    for line in read_vectors(args.s("in")) {
        for v in line["rows"].as_array().unwrap() {
            let dst = vbytes(&v["dst"]);
            let src = vbytes(&v["src"]);
            let (a, b) = (v["a"].as_u64().unwrap() as usize, v["b"].as_u64().unwrap() as usize);
            let maxres = v["maxres"].as_u64().unwrap() as usize;
            let mut want = vbytes(&v["v"]["head"]);
            want.extend(std::iter::repeat(0u8).take(v["v"]["zeros"].as_u64().unwrap() as usize));
            for inclusive in [false, true] {
                if inclusive && b == 0 {
                    continue;
                }
                rep.evaluated += 1;
                let (k, got) = run(&dst, a, b, inclusive, &src, maxres);
                let exp = v["k"].as_str().unwrap();
                let ok = k == exp && match exp {
                    "ok" => got == want,
                    "err" => got == dst,
                    _ => true,
                };
                if !ok {
                    let prop = if exp == "ok" && k == "ok" { "C09" } else { "C11" };
                    rep.bad(prop, "extending_splice differs from SpliceRange", json!({"row": v, "inclusive_range": inclusive, "got": {"k": k, "len": got.len(), "head": jbytes(&got[..got.len().min(24)])}}));
                    if prop == "C09" {
                        rep.bad("C11", "extending_splice differs from SpliceRange", json!({"row": v, "inclusive_range": inclusive}));
                    }
                }
                rep.count(exp);
            }
        }
    }
    rep.write(args.s("out"));
}
