//! C14 / C15: Subject and create_notification.
use crate::util::*;
use coap_lite::{create_notification, CoapOption, CoapRequest, MessageType, Packet, Subject};
use serde_json::{json, Value};

type Ep = String;

fn req(ep: &str, tok: &[u8], segs: &[Vec<u8>], mid: u16) -> CoapRequest<Ep> {
    let mut p = Packet::new();
    p.set_token(tok.to_vec());
    for s in segs {
        p.add_option(CoapOption::UriPath, s.clone());
    }
    p.header.message_id = mid;
    CoapRequest::from_packet(p, ep.to_string())
}

/// Deterministic noise for the request fields an operation must not look at (the specification's
/// operators do not even receive them): registration requests with any message id, type, query and
/// payload; acknowledgements that carry any token.
fn noise() -> u64 {
    static N: std::sync::atomic::AtomicU64 = std::sync::atomic::AtomicU64::new(0x9E37);
    let x = N.fetch_add(0x9E3779B97F4A7C15, std::sync::atomic::Ordering::Relaxed);
    let mut z = x;
    z = (z ^ (z >> 30)).wrapping_mul(0xBF58476D1CE4E5B9);
    z = (z ^ (z >> 27)).wrapping_mul(0x94D049BB133111EB);
    z ^ (z >> 31)
}
fn noisy_registration(ep: &str, tok: &[u8], segs: &[Vec<u8>]) -> CoapRequest<Ep> {
    let n = noise();
    let mut r = req(ep, tok, segs, (n >> 8) as u16);
    if n & 1 == 1 {
        r.message.header.set_type(MessageType::NonConfirmable);
    }
    if n & 2 == 2 {
        r.message.add_option(CoapOption::UriQuery, b"q=1".to_vec());
    }
    if n & 4 == 4 {
        r.message.payload = vec![1, 2, 3];
    }
    if n & 8 == 8 {
        r.message.add_option(CoapOption::Observe, vec![(n >> 32) as u8 & 1]);
    }
    r
}
fn noisy_ack(ep: &str, mid: u16) -> CoapRequest<Ep> {
    let n = noise();
    let tok: Vec<u8> = if n & 1 == 1 { vec![] } else { (0..(1 + (n >> 4) % 8)).map(|i| (n >> (8 + i)) as u8).collect() };
    let mut r = req(ep, &tok, &[], mid);
    r.message.header.set_type(if n & 2 == 2 { MessageType::Acknowledgement } else { MessageType::Reset });
    r.message.header.code = coap_lite::MessageClass::Empty;
    r
}

fn segs_of(path: &str) -> Vec<Vec<u8>> {
    if path.is_empty() {
        vec![]
    } else {
        path.split('/').map(|s| s.as_bytes().to_vec()).collect()
    }
}

fn proj_path(s: &Subject<Ep>, p: &str) -> Value {
    match s.get_resource(p) {
        None => json!({"p": p, "present": false, "seq": 0, "obs": []}),
        Some(r) => {
            let obs: Vec<Value> = r.observers.iter().map(|o| {
                // Observe!ObsView: the pending id of an observer whose count is 0 cannot be observed
                let mid = match o.verif_pending_message_id() {
                    Some(m) if o.verif_unacknowledged() > 0 => json!({"some": true, "v": m}),
                    _ => json!({"some": false}),
                };
                json!({"ep": o.endpoint, "tok": jbytes(&o.token), "unacked": o.verif_unacknowledged(), "mid": mid})
            }).collect();
            // the other public view must agree with get_resource
            let alt = s.get_resource_observers(p).map(|v| v.len());
            if alt != Some(obs.len()) {
                return json!({"p": p, "present": true, "seq": -1, "obs": []});
            }
            if r.sequence > i32::MAX as u32 {
                tool_error("sequence beyond TLC integers");
            }
            json!({"p": p, "present": true, "seq": r.sequence, "obs": obs})
        }
    }
}

/// Apply one call (JSON form shared by the TLC histories and the recorder).
fn apply(s: &mut Subject<Ep>, c: &Value) {
    match c["op"].as_str().unwrap() {
        "register" => {
            let segs: Vec<Vec<u8>> = match c.get("segs") { Some(x) => x.as_array().unwrap().iter().map(vbytes).collect(), None => segs_of(c["p"].as_str().unwrap()) };
            s.register(&noisy_registration(c["ep"].as_str().unwrap(), &vbytes(&c["tok"]), &segs))
        }
        "deregister" => {
            let segs: Vec<Vec<u8>> = match c.get("segs") { Some(x) => x.as_array().unwrap().iter().map(vbytes).collect(), None => segs_of(c["p"].as_str().unwrap()) };
            s.deregister(&noisy_registration(c["ep"].as_str().unwrap(), &vbytes(&c["tok"]), &segs))
        }
        "changed_many" => {
            // n non-confirmable rounds with one message id, performed but recorded as one event
            let (p, mid) = (c["p"].as_str().unwrap(), c["mid"].as_u64().unwrap() as u16);
            for _ in 0..c["n"].as_u64().unwrap() {
                s.resource_changed(p, mid, false);
            }
        }
        "changed" => s.resource_changed(c["p"].as_str().unwrap(), c["mid"].as_u64().unwrap() as u16, c["con"].as_bool().unwrap()),
        "ack" => {
            s.acknowledge(&noisy_ack(c["ep"].as_str().unwrap(), c["mid"].as_u64().unwrap() as u16))
        }
        "limit" => s.set_unacknowledged_limit(c["n"].as_u64().unwrap() as u8),
        other => tool_error(&format!("unknown observe op {}", other)),
    }
}

/// spec -> impl: every transition of MC_Observe: {h, st}
pub fn replay_observe(args: &Args) {
    let mut rep = Report::default();
    for v in read_vectors(args.s("in")) {
        rep.evaluated += 1;
        let mut s: Subject<Ep> = Subject::default();
        let mut panicked = false;
        for c in v["h"].as_array().unwrap() {
            if guarded(|| apply(&mut s, c)).is_none() {
                panicked = true;
                break;
            }
        }
        let exp = v["st"]["res"].as_object().unwrap();
        let mut got = serde_json::Map::new();
        for p in exp.keys() {
            let mut g = proj_path(&s, p);
            g.as_object_mut().unwrap().remove("p");
            got.insert(p.clone(), g);
        }
        let last = v["h"].as_array().unwrap().last().map(|c| c["op"].as_str().unwrap().to_string()).unwrap_or_default();
        let prop = if last == "register" || last == "deregister" { "C14" } else { "C15" };
        if panicked {
            rep.bad(prop, "call panicked", json!({"h": v["h"]}));
            rep.bad(if prop == "C14" { "C15" } else { "C14" }, "call panicked", json!({"h": v["h"]}));
        } else if Value::Object(got.clone()) != v["st"]["res"] {
            let case = json!({"h": v["h"], "expected": v["st"]["res"], "got": got});
            // a wrong state after a notification round concerns both the registry shape and the accounting
            rep.bad("C14", "subject state differs from Observe.tla after the history", case.clone());
            rep.bad("C15", "subject state differs from Observe.tla after the history", case);
        }
        if rep.evaluated % 50_000 == 3 {
            rep.sample(json!({"h": v["h"], "state": got}));
        }
    }
    rep.write(args.s("out"));
}

fn ev(out: &mut Out, s: &mut Subject<Ep>, c: Value, paths: &[String]) {
    let ok = guarded(|| apply(s, &c)).is_some();
    let st: Vec<Value> = if ok { paths.iter().map(|p| proj_path(s, p)).collect() } else { vec![] };
    let mut e = c.clone();
    let o = e.as_object_mut().unwrap();
    o.remove("segs");
    o.insert("panicked".into(), json!(!ok));
    o.insert("st".into(), Value::Array(st));
    out.ev(e);
}

pub fn rec_observe(args: &Args) {
    let seed = args.u("seed", 1);
    let thorough = args.thorough();
    let mut r = Rng::new(seed ^ 0xC14);
    let mut out = Out::create(args.s("out"));
    let eps: Vec<String> = (1..=6).map(|i| format!("[fe80::{}]:5683", i)).collect();
    // tokens are byte strings: [] / [0] / [0, 0] and [1] / [0, 1] are different tokens
    let toks: Vec<Vec<u8>> = vec![vec![], vec![1], vec![0xAA, 0xBB, 0xCC, 0xDD], vec![1, 2, 3, 4, 5, 6, 7, 8], vec![0], vec![0, 0], vec![0, 1], vec![0; 8]];
    // path = (segments, key string as get_path() yields it)
    let mut paths: Vec<(Vec<Vec<u8>>, String)> = vec![
        (vec![b"temp".to_vec()], String::new()),
        (vec![b"a".to_vec(), b"b".to_vec()], String::new()),
        (vec![b"a".to_vec()], String::new()),
        (vec![], String::new()),
        (vec![b"x".to_vec(), vec![0xFF, 0xFE]], String::new()),
        (vec!["é".as_bytes().to_vec(), b"".to_vec()], String::new()),
        // keys that differ only by what a normalisation would fold: "/a" and "a/" next to "a"
        (vec![b"".to_vec(), b"a".to_vec()], String::new()),
        (vec![b"a".to_vec(), b"".to_vec()], String::new()),
        (vec![b"A".to_vec()], String::new()),
    ];
    // (the key is worked out here, not asked of the code under test: Views!GetPath - the segments that are
    // valid UTF-8, joined by '/')
    for p in paths.iter_mut() {
        p.1 = p.0.iter().filter_map(|seg| std::str::from_utf8(seg).ok()).collect::<Vec<_>>().join("/");
    }
    let mut keys: Vec<String> = paths.iter().map(|p| p.1.clone()).collect();
    // near misses of every key are observed too (and used by notification rounds): the registry is keyed
    // by the exact string
    let near: Vec<String> = keys.iter().flat_map(|k| vec![format!("/{}", k), format!("{}/", k), k.trim_start_matches('/').to_string(), k.trim_end_matches('/').to_string()]).collect();
    keys.extend(near.iter().cloned());
    keys.push("never".into());
    keys.sort();
    keys.dedup();
    let episodes = if thorough { 200 } else { 25 };
    for _ in 0..episodes {
        out.ev(json!({"op": "reset"}));
        let mut s: Subject<Ep> = Subject::default();
        if r.chance(2, 3) {
            let n = *r.pick(&[0u64, 1, 2, 3, 5]);
            ev(&mut out, &mut s, json!({"op": "limit", "n": n}), &keys);
        }
        let mut mid: u16 = r.next() as u16;
        for _ in 0..200 {
            let ep = r.pick(&eps).clone();
            let tok = r.pick(&toks).clone();
            let pi = r.below(paths.len() as u64) as usize;
            match r.below(12) {
                0 | 1 | 2 => ev(&mut out, &mut s, json!({"op": "register", "ep": ep, "tok": jbytes(&tok), "p": paths[pi].1, "segs": paths[pi].0.iter().map(|x| jbytes(x)).collect::<Vec<_>>()}), &keys),
                3 | 4 => ev(&mut out, &mut s, json!({"op": "deregister", "ep": ep, "tok": jbytes(&tok), "p": paths[pi].1, "segs": paths[pi].0.iter().map(|x| jbytes(x)).collect::<Vec<_>>()}), &keys),
                5 | 6 | 7 | 8 => {
                    if r.chance(2, 3) {
                        mid = mid.wrapping_add(1);
                    }
                    if r.chance(1, 6) {
                        mid = *r.pick(&[0u16, 1, 0xFF, 0x100, 0x7FFF, 0x8000, 0xFFFE, 0xFFFF]);
                    }
                    let p = if r.chance(1, 10) { "never".to_string() } else if r.chance(1, 6) { r.pick(&near).clone() } else { paths[pi].1.clone() };
                    ev(&mut out, &mut s, json!({"op": "changed", "p": p, "mid": mid, "con": r.chance(2, 3)}), &keys)
                }
                9 | 10 => {
                    let m = if r.chance(3, 4) { mid } else { mid.wrapping_sub(r.below(3) as u16) };
                    ev(&mut out, &mut s, json!({"op": "ack", "ep": ep, "mid": m}), &keys)
                }
                _ => {
                    let n = *r.pick(&[0u64, 1, 2, 3, 10, 255]);
                    ev(&mut out, &mut s, json!({"op": "limit", "n": n}), &keys)
                }
            }
        }
    }
    // directed long histories: limits 10, 254, 255; acknowledgements at chosen rounds
    let one = vec!["t".to_string()];
    for (limit, rounds, ack_at) in [(10u64, 40usize, vec![5usize, 16]), (254, 600, vec![254, 300]), (255, 600, vec![]), (255, 600, vec![255]), (255, 300, vec![256 + 10]), (0, 5, vec![]), (1, 8, vec![1, 3])] {
        out.ev(json!({"op": "reset"}));
        let mut s: Subject<Ep> = Subject::default();
        ev(&mut out, &mut s, json!({"op": "limit", "n": limit}), &one);
        ev(&mut out, &mut s, json!({"op": "register", "ep": "e1", "tok": [1], "p": "t"}), &one);
        ev(&mut out, &mut s, json!({"op": "register", "ep": "e2", "tok": [2], "p": "t"}), &one);
        for k in 1..=rounds {
            let con = !(limit == 10 && k % 7 == 0);
            ev(&mut out, &mut s, json!({"op": "changed", "p": "t", "mid": (k % 60000) as u64, "con": con}), &one);
            if ack_at.contains(&k) {
                ev(&mut out, &mut s, json!({"op": "ack", "ep": "e2", "mid": ((k + 1) % 60000) as u64}), &one);
                ev(&mut out, &mut s, json!({"op": "ack", "ep": "e3", "mid": (k % 60000) as u64}), &one);
                ev(&mut out, &mut s, json!({"op": "ack", "ep": "e2", "mid": (k % 60000) as u64}), &one);
            }
        }
    }
    // counters after very many rounds: a run of n non-confirmable rounds is performed in full but recorded
    // as one event (Observe!ChangedMany is its closed form), single rounds are recorded around each mark
    let marks: Vec<u64> = if thorough { vec![255, 65535, (1 << 24) - 1, (1 << 24) + 70000] } else { vec![255, 65535, (1 << 24) - 1] };
    out.ev(json!({"op": "reset"}));
    let mut s: Subject<Ep> = Subject::default();
    ev(&mut out, &mut s, json!({"op": "register", "ep": "e1", "tok": [1], "p": "t"}), &one);
    ev(&mut out, &mut s, json!({"op": "register", "ep": "e2", "tok": [2, 3], "p": "t"}), &one);
    ev(&mut out, &mut s, json!({"op": "changed", "p": "t", "mid": 5, "con": true}), &one);
    let mut done: u64 = 1;
    for m in marks {
        let n = m - 2 - done;
        ev(&mut out, &mut s, json!({"op": "changed_many", "p": "t", "mid": 9, "n": n}), &one);
        done += n;
        for k in 0..4u64 {
            ev(&mut out, &mut s, json!({"op": "changed", "p": "t", "mid": 10 + k, "con": k == 3}), &one);
            done += 1;
        }
        ev(&mut out, &mut s, json!({"op": "ack", "ep": "e1", "mid": 13}), &one);
        ev(&mut out, &mut s, json!({"op": "ack", "ep": "e2", "mid": 13}), &one);
    }
    // notification builder
    let mut seqs: Vec<u64> = vec![0, 1, 255, 256, 65535, 65536, (1 << 24) - 1, 1 << 24, (1 << 31) - 1, 1 << 31, (1u64 << 32) - 1, 12345, 0x00FF00, 0x01000001];
    // not only boundaries: values whose bytes all differ, and random ones of every length
    seqs.extend([0x01020304u64, 0x01000100, 0x7F00FF01, 0xFFFEFDFC, 0x0102, 0x010203, 0xA1B2C3]);
    for _ in 0..8 {
        seqs.push(r.next() & 0xFFFF_FFFF);
        seqs.push(r.next() & 0xFF_FFFF);
    }
    for tl in 0..=8usize {
        for &seq in &seqs {
            for con in [true, false] {
                let tok = r.bytes(tl);
                let pl = *r.pick(&[0usize, 1, 5, 40, 0, 300, 1500]);
                let pay = if tl == 8 && seq == 12345 && con { r.bytes(70_000) } else { r.bytes(pl) };
                let rnd = r.next() as u16;
                let mid = *r.pick(&[0u16, 65535, 256, 255, rnd, rnd.wrapping_mul(31)]);
                let got = guarded(|| create_notification(mid, tok.clone(), seq as u32, pay.clone(), con));
                let (st, enc, back, panicked) = match &got {
                    Some(p) => {
                        let back = match p.get_observe_value() { Some(Ok(x)) => json!({"some": true, "ok": true, "digits": digits(x as u64, 4)}), Some(Err(_)) => json!({"some": true, "ok": false}), None => json!({"some": false}) };
                        (jpkt(p), crate::wire::out_to_bytes(p, Some(None)), back, false)
                    }
                    None => (json!({}), json!({"k": "panic"}), json!({"some": false}), true),
                };
                out.ev(json!({"op": "notify", "mid": mid, "tok": jbytes(&tok), "seq": digits(seq, 4), "pay": jbytes(&pay), "con": con,
                              "panicked": panicked, "st": st, "enc": enc, "seqback": back}));
            }
        }
    }
    let n = out.finish();
    println!("{}", json!({"events": n, "episodes": episodes}));
}
