//! Shared helpers: JSON projection of crate values, deterministic RNG, panic capture, line I/O.
use coap_lite::{CoapOption, MessageType, Packet};
use serde_json::{json, Value};
use std::collections::LinkedList;
use std::io::{BufRead, BufReader, BufWriter, Write};
use std::panic::{catch_unwind, AssertUnwindSafe};

pub struct Rng(pub u64);
impl Rng {
    pub fn new(seed: u64) -> Self {
        Rng(seed.wrapping_mul(0x9E37_79B9_7F4A_7C15) ^ 0xD1B5_4A32_D192_ED03)
    }
    pub fn next(&mut self) -> u64 {
        self.0 = self.0.wrapping_add(0x9E37_79B9_7F4A_7C15);
        let mut z = self.0;
        z = (z ^ (z >> 30)).wrapping_mul(0xBF58_476D_1CE4_E5B9);
        z = (z ^ (z >> 27)).wrapping_mul(0x94D0_49BB_1331_11EB);
        z ^ (z >> 31)
    }
    /// uniform in 0..n (n > 0)
    pub fn below(&mut self, n: u64) -> u64 {
        self.next() % n
    }
    pub fn range(&mut self, lo: u64, hi_incl: u64) -> u64 {
        lo + self.below(hi_incl - lo + 1)
    }
    pub fn pick<'a, T>(&mut self, xs: &'a [T]) -> &'a T {
        &xs[self.below(xs.len() as u64) as usize]
    }
    pub fn chance(&mut self, num: u64, den: u64) -> bool {
        self.below(den) < num
    }
    pub fn bytes(&mut self, n: usize) -> Vec<u8> {
        (0..n).map(|_| self.next() as u8).collect()
    }
}

pub fn install_quiet_panic_hook() {
    // an unwinding panic in the code under test is caught by `guarded` and recorded as data; one that
    // cannot unwind (std's unsafe-precondition checks, a panic in a destructor while unwinding) kills
    // the process: the runner re-runs with CLV_BREADCRUMB to find the failing case (panic messages are then
    // printed, the last one before std's "non-unwinding panic. aborting." is the fatal one)
    std::panic::set_hook(Box::new(|info| {
        if breadcrumb_file().is_some() {
            eprintln!("panic: {}", info);
        }
        // a panic raised by the code under test while the harness was NOT inside a guarded call (a helper
        // that prepares an input through the crate's own API): still data, not a harness failure.  The
        // harness's own files are compiled with relative paths ("src/..."); the crate under test and std
        // are not.
        let own = info.location().map(|l| l.file().starts_with("src/")).unwrap_or(true);
        if !own && !IN_GUARDED.load(std::sync::atomic::Ordering::Relaxed) {
            eprintln!("UNGUARDED PANIC in the code under test: {}", info);
            std::process::exit(4);
        }
    }));
}

/// Breadcrumb mode (env CLV_BREADCRUMB=<file>): the runner re-runs a harness invocation that died from a
/// signal with this set; the current input vector is then written to <file> before it is evaluated and
/// every recorded event is flushed at once, so that the failing case can be read off the files.
pub fn breadcrumb_file() -> Option<&'static str> {
    static F: std::sync::OnceLock<Option<String>> = std::sync::OnceLock::new();
    F.get_or_init(|| std::env::var("CLV_BREADCRUMB").ok()).as_deref()
}
pub fn breadcrumb(case: &str) {
    if let Some(f) = breadcrumb_file() {
        let _ = std::fs::write(f, &case.as_bytes()[..case.len().min(1 << 16)]);
    }
}

static PROGRESS: std::sync::atomic::AtomicU64 = std::sync::atomic::AtomicU64::new(0);
static IN_GUARDED: std::sync::atomic::AtomicBool = std::sync::atomic::AtomicBool::new(false);

/// Run `f`, turning a panic into `None` (a panic in the code under test is data).
pub fn guarded<R>(f: impl FnOnce() -> R) -> Option<R> {
    use std::sync::atomic::Ordering::Relaxed;
    PROGRESS.fetch_add(1, Relaxed);
    let nested = IN_GUARDED.swap(true, Relaxed);
    let r = catch_unwind(AssertUnwindSafe(f)).ok();
    IN_GUARDED.store(nested, Relaxed);
    PROGRESS.fetch_add(1, Relaxed);
    r
}

/// A call into the code under test that does not return is data too: a watchdog thread ends the process
/// with exit code 3 when one guarded call has been in flight for CLV_HANG_SECS (default 20) seconds; the
/// runner re-runs in breadcrumb mode and reports the case as a violation.
pub fn start_hang_watchdog() {
    use std::sync::atomic::Ordering::Relaxed;
    let limit: u64 = std::env::var("CLV_HANG_SECS").ok().and_then(|s| s.parse().ok()).unwrap_or(20);
    std::thread::spawn(move || {
        let mut last = PROGRESS.load(Relaxed);
        let mut still = 0u64;
        loop {
            std::thread::sleep(std::time::Duration::from_secs(1));
            let now = PROGRESS.load(Relaxed);
            if now == last && IN_GUARDED.load(Relaxed) {
                still += 1;
                if still >= limit {
                    eprintln!("HANG: a call into the code under test has not returned for {} s", limit);
                    std::process::exit(3);
                }
            } else {
                still = 0;
                last = now;
            }
        }
    });
}

pub fn jbytes(b: &[u8]) -> Value {
    Value::Array(b.iter().map(|x| json!(*x)).collect())
}

pub fn vbytes(v: &Value) -> Vec<u8> {
    // {"z": n} stands for n zero bytes (compact form used by some TLC generators)
    if let Some(n) = v.get("z").and_then(|n| n.as_u64()) {
        return vec![0; n as usize];
    }
    v.as_array()
        .map(|a| a.iter().map(|x| x.as_u64().unwrap() as u8).collect())
        .unwrap_or_default()
}

pub fn type_num(t: MessageType) -> u8 {
    match t {
        MessageType::Confirmable => 0,
        MessageType::NonConfirmable => 1,
        MessageType::Acknowledgement => 2,
        MessageType::Reset => 3,
    }
}

pub fn num_type(n: u64) -> MessageType {
    match n {
        0 => MessageType::Confirmable,
        1 => MessageType::NonConfirmable,
        2 => MessageType::Acknowledgement,
        _ => MessageType::Reset,
    }
}

/// Mechanical projection of a packet: getters only.
pub fn jpkt(p: &Packet) -> Value {
    let opts: Vec<Value> = p
        .options()
        .map(|(num, vals)| json!([*num, vals.iter().map(|v| jbytes(v)).collect::<Vec<_>>()]))
        .collect();
    json!({
        "ver": p.header.get_version(),
        "typ": type_num(p.header.get_type()),
        "tkl": p.header.get_token_length(),
        "code": u8::from(p.header.code),
        "mid": p.header.message_id,
        "tok": jbytes(p.get_token()),
        "opts": opts,
        "pay": jbytes(&p.payload),
    })
}

/// Build a packet from its JSON projection through the public API.
pub fn vpkt(v: &Value) -> Packet {
    let mut p = Packet::new();
    p.header.set_version(v["ver"].as_u64().unwrap() as u8);
    p.header.set_type(num_type(v["typ"].as_u64().unwrap()));
    p.header.code = (v["code"].as_u64().unwrap() as u8).into();
    p.header.message_id = v["mid"].as_u64().unwrap() as u16;
    p.set_token(vbytes(&v["tok"]));
    if let Some(opts) = v["opts"].as_array() {
        for e in opts {
            let num = e[0].as_u64().unwrap() as u16;
            let mut l = LinkedList::new();
            if let Some(vals) = e[1].as_array() {
                for x in vals {
                    l.push_back(vbytes(x));
                }
            }
            p.set_option(CoapOption::from(num), l);
        }
    }
    p.payload = vbytes(&v["pay"]);
    p
}

/// Lines written by TLC's CSVWrite("%1$s", <<ToJson(x)>>, file) are JSON string
/// literals holding JSON; plain NDJSON is accepted too.
pub fn read_vectors(path: &str) -> impl Iterator<Item = Value> {
    let f = std::fs::File::open(path).unwrap_or_else(|e| tool_error(&format!("open {}: {}", path, e)));
    BufReader::with_capacity(1 << 20, f).lines().filter_map(|l| {
        let l = l.ok()?;
        let t = l.trim();
        if t.is_empty() {
            return None;
        }
        breadcrumb(t);
        let v: Value = serde_json::from_str(t).unwrap_or_else(|e| tool_error(&format!("vector line: {}: {}", e, &t[..t.len().min(200)])));
        Some(match v {
            Value::String(s) => serde_json::from_str(&s).unwrap_or_else(|e| tool_error(&format!("inner vector: {}", e))),
            other => other,
        })
    })
}

pub fn tool_error(msg: &str) -> ! {
    eprintln!("TOOL-ERROR: {}", msg);
    std::process::exit(2)
}

pub struct Out {
    w: BufWriter<std::fs::File>,
    pub n: u64,
}
impl Out {
    pub fn create(path: &str) -> Out {
        let f = std::fs::File::create(path).unwrap_or_else(|e| tool_error(&format!("create {}: {}", path, e)));
        Out { w: BufWriter::with_capacity(1 << 20, f), n: 0 }
    }
    pub fn ev(&mut self, v: Value) {
        check_ints(&v);
        serde_json::to_writer(&mut self.w, &v).unwrap();
        self.w.write_all(b"\n").unwrap();
        self.n += 1;
        if breadcrumb_file().is_some() {
            self.w.flush().unwrap();
        }
    }
    pub fn finish(mut self) -> u64 {
        self.w.flush().unwrap();
        self.n
    }
}

/// TLC integers are 32-bit: refuse to emit a larger bare number (tool error).
fn check_ints(v: &Value) {
    match v {
        Value::Number(n) => {
            if n.as_i64().map(|x| x > i32::MAX as i64 || x < i32::MIN as i64).unwrap_or(true) {
                tool_error(&format!("number {} does not fit TLC's 32-bit integers", n));
            }
        }
        Value::Array(a) => a.iter().for_each(check_ints),
        Value::Object(o) => o.values().for_each(check_ints),
        _ => {}
    }
}

/// Fixed-width big-endian digits of a u64 (for values that may exceed 2^31-1).
pub fn digits(x: u64, w: usize) -> Value {
    jbytes(&x.to_be_bytes()[8 - w..])
}

pub fn vdigits(v: &Value) -> u64 {
    vbytes(v).iter().fold(0u64, |a, b| (a << 8) | *b as u64)
}

/// Replay report: what the replayer evaluated and where the code disagrees with the vectors.
#[derive(Default)]
pub struct Report {
    pub evaluated: u64,
    pub mismatches: Vec<Value>,
    pub drift: u64,
    pub samples: Vec<Value>,
    pub counts: std::collections::BTreeMap<String, u64>,
}
impl Report {
    pub fn bad(&mut self, prop: &str, what: &str, case: Value) {
        if self.mismatches.len() < 200 {
            self.mismatches.push(json!({"prop": prop, "what": what, "case": case}));
        } else {
            *self.counts.entry("mismatches_dropped".into()).or_insert(0) += 1;
        }
    }
    pub fn count(&mut self, k: &str) {
        *self.counts.entry(k.into()).or_insert(0) += 1;
    }
    pub fn sample(&mut self, v: Value) {
        if self.samples.len() < 3 {
            self.samples.push(v);
        }
    }
    pub fn write(&self, path: &str) {
        let v = json!({"evaluated": self.evaluated, "mismatches": self.mismatches, "drift": self.drift,
                       "samples": self.samples, "counts": self.counts});
        std::fs::write(path, serde_json::to_vec(&v).unwrap()).unwrap_or_else(|e| tool_error(&format!("write {}: {}", path, e)));
    }
}

pub struct Args {
    pub m: std::collections::BTreeMap<String, String>,
}
impl Args {
    pub fn parse(rest: &[String]) -> Args {
        let mut m = std::collections::BTreeMap::new();
        let mut i = 0;
        while i < rest.len() {
            let k = rest[i].trim_start_matches("--").to_string();
            let v = rest.get(i + 1).cloned().unwrap_or_default();
            m.insert(k, v);
            i += 2;
        }
        Args { m }
    }
    pub fn s(&self, k: &str) -> &str {
        self.m.get(k).map(|s| s.as_str()).unwrap_or_else(|| tool_error(&format!("missing --{}", k)))
    }
    pub fn opt(&self, k: &str) -> Option<&str> {
        self.m.get(k).map(|s| s.as_str())
    }
    pub fn u(&self, k: &str, default: u64) -> u64 {
        self.m.get(k).map(|s| s.parse().unwrap_or_else(|_| tool_error(&format!("bad --{}", k)))).unwrap_or(default)
    }
    pub fn thorough(&self) -> bool {
        self.opt("tier") == Some("thorough")
    }
}
