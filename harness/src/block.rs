//! C08-C12, C20: BlockHandler.  Drivers record every entry-point call with its outcome, the
//! prepared reply, the rewritten request payload and the cfg(coap_lite_verif) cache snapshot;
//! TLC (Trace_BlockHandler) decides.  TLC-generated call scripts are executed the same way.
use crate::util::*;
use coap_lite::block_handler::{BlockHandler, BlockHandlerConfig, BlockValue};
use coap_lite::{CoapOption, CoapRequest, CoapResponse, MessageClass, Packet};
use serde_json::{json, Value};
use std::collections::BTreeMap;
use std::convert::TryFrom;
use std::sync::Mutex;
use std::time::{Duration, Instant};

// ---- endpoint type whose live instances are counted (C20 reclamation) ---------------------------
static LIVE: Mutex<BTreeMap<String, i64>> = Mutex::new(BTreeMap::new());

#[derive(PartialEq, Eq, PartialOrd, Ord, Debug)]
pub struct Ep(pub String);
impl Ep {
    pub fn new(s: &str) -> Ep {
        *LIVE.lock().unwrap().entry(s.to_string()).or_insert(0) += 1;
        Ep(s.to_string())
    }
}
impl Clone for Ep {
    fn clone(&self) -> Ep {
        Ep::new(&self.0)
    }
}
impl Drop for Ep {
    fn drop(&mut self) {
        if let Ok(mut m) = LIVE.lock() {
            *m.entry(self.0.clone()).or_insert(0) -= 1;
        }
    }
}
fn live_with_prefix(p: &str) -> i64 {
    LIVE.lock().unwrap().iter().filter(|(k, _)| k.starts_with(p)).map(|(_, v)| *v).sum()
}

/// Bodies: mostly every offset distinguishable; some constant, some periodic with a period that
/// divides every block size, some whose tail repeats the bytes before it (content must not matter).
pub fn body_bytes(len: usize, salt: usize) -> Vec<u8> {
    match salt % 7 {
        1 => vec![0u8; len],
        3 => (0..len).map(|i| (i % 16) as u8).collect(),
        5 => {
            let mut b: Vec<u8> = (0..len).map(|i| ((i * 7 + i / 251 + salt * 13) % 256) as u8).collect();
            // the last third repeats the third before it
            let k = len / 3;
            if k > 0 {
                for i in len - k..len {
                    b[i] = b[i - k];
                }
            }
            b
        }
        _ => (0..len).map(|i| ((i * 7 + i / 251 + salt * 13) % 256) as u8).collect(),
    }
}

fn jbv(b: &Option<BlockValue>) -> Value {
    match b {
        None => json!({"some": false}),
        Some(b) => json!({"some": true, "v": {"num": b.num, "more": b.more, "szx": b.size_exponent}}),
    }
}
fn jresp(r: &Option<CoapResponse>) -> Value {
    match r {
        None => json!({"some": false}),
        Some(r) => json!({"some": true, "v": jpkt(&r.message)}),
    }
}

/// the reply as a client parses it from the datagram: {"k":"none"} | {"k":"unencodable"} |
/// {"k":"undecodable","bytes":[..]} | {"k":"ok","v":msg}; large replies are not re-parsed
fn jwire(r: &Option<CoapResponse>) -> Value {
    match r {
        None => json!({"k": "none"}),
        Some(r) => match r.message.to_bytes_unlimited() {
            Err(_) => json!({"k": "unencodable"}),
            Ok(b) => match guarded(|| Packet::from_bytes(&b)) {
                Some(Ok(p)) => json!({"k": "ok", "v": jpkt(&p)}),
                _ => json!({"k": "undecodable", "bytes": jbytes(&b[..b.len().min(64)])}),
            },
        },
    }
}

pub struct H {
    pub h: BlockHandler<Ep>,
    start: Instant,
    pub m: usize,
    pub ttl_ms: u64,
}

impl H {
    pub fn new(out: &mut Out, m: usize, ttl_ms: u64, start: Instant) -> H {
        out.ev(json!({"op": "reset", "M": m.min(i32::MAX as usize), "ttl": ttl_ms.min(i32::MAX as u64)}));
        H { h: BlockHandler::new(BlockHandlerConfig { max_total_message_size: m, cache_expiry_duration: Duration::from_millis(ttl_ms) }), start, m, ttl_ms }
    }
    /// an expiry that is not a whole number of milliseconds: the trace carries a lower and an upper bound
    pub fn new_us(out: &mut Out, m: usize, ttl_us: u64, start: Instant) -> H {
        let (lo, hi) = (ttl_us / 1000, (ttl_us + 999) / 1000);
        out.ev(json!({"op": "reset", "M": m.min(i32::MAX as usize), "ttl": hi, "ttl_lo": lo}));
        H { h: BlockHandler::new(BlockHandlerConfig { max_total_message_size: m, cache_expiry_duration: Duration::from_micros(ttl_us) }), start, m, ttl_ms: hi }
    }
    fn now_floor(&self) -> u64 {
        self.start.elapsed().as_millis() as u64
    }
    fn now_ceil(&self) -> u64 {
        (self.start.elapsed().as_micros() as u64 + 999) / 1000
    }
    fn snap(&self) -> Value {
        let s = self.h.verif_snapshot();
        Value::Array(
            s.iter()
                .map(|(m, path, ep, b2, cached, upload)| {
                    json!({
                        "key": [*m, path.iter().map(|p| jbytes(p.as_bytes())).collect::<Vec<_>>(), ep.as_ref().map(|e| e.0.clone()).unwrap_or_default()],
                        "e": {
                            "b2": jbv(b2),
                            "cached": match cached { None => json!({"some": false}), Some(p) => json!({"some": true, "v": jpkt(p)}) },
                            "upload": match upload { None => json!({"some": false}), Some(b) => json!({"some": true, "v": jbytes(b)}) },
                        }
                    })
                })
                .collect(),
        )
    }

    /// intercept_request on a request built from `pkt` arriving from `ep`
    pub fn ireq(&mut self, out: &mut Out, ep: &str, pkt: &Packet, tag: &Value) -> (Value, CoapRequest<Ep>) {
        let mut req = CoapRequest::from_packet(pkt.clone(), Ep::new(ep));
        let before = jpkt(pkt);
        let t0 = self.now_floor();
        let r = guarded(|| self.h.intercept_request(&mut req));
        let t1 = self.now_ceil();
        let o = outcome(&r);
        let resplen = req.response.as_ref().and_then(|x| x.message.to_bytes_unlimited().ok()).map(|b| b.len()).unwrap_or(0);
        out.ev(json!({"op": "ireq", "t0": t0, "t1": t1, "ep": ep, "req": before, "out": o, "resp": jresp(&req.response),
                      "wire": jwire(&req.response),
                      "reqpay": jbytes(&req.message.payload), "resplen": resplen, "snap": self.snap(), "tag": tag}));
        (o, req)
    }

    /// intercept_response on a request whose reply the application has filled in
    pub fn iresp(&mut self, out: &mut Out, ep: &str, req: &mut CoapRequest<Ep>, tag: &Value) -> Value {
        let before = jresp(&req.response);
        let rq = jpkt(&req.message);
        let t0 = self.now_floor();
        let r = guarded(|| self.h.intercept_response(req));
        let t1 = self.now_ceil();
        let o = outcome(&r);
        let resplen = req.response.as_ref().and_then(|x| x.message.to_bytes_unlimited().ok()).map(|b| b.len()).unwrap_or(0);
        out.ev(json!({"op": "iresp", "t0": t0, "t1": t1, "ep": ep, "req": rq, "app": before, "out": o, "resp": jresp(&req.response),
                      "wire": jwire(&req.response),
                      "resplen": resplen, "snap": self.snap(), "tag": tag}));
        o
    }
}

fn outcome(r: &Option<Result<bool, coap_lite::error::HandlingError>>) -> Value {
    match r {
        None => json!({"k": "panic"}),
        Some(Ok(h)) => json!({"k": "ok", "handled": h}),
        Some(Err(e)) => match e.code {
            Some(c) => json!({"k": "err", "code": {"some": true, "v": u8::from(MessageClass::Response(c))}}),
            None => json!({"k": "err", "code": {"some": false}}),
        },
    }
}

// ---- request construction ---------------------------------------------------------------------
pub struct ReqSpec<'a> {
    pub code: u8,
    pub typ: u64,
    pub mid: u16,
    pub tok: Vec<u8>,
    pub segs: &'a [Vec<u8>],
    pub b1: Option<(u16, bool, u8)>,
    pub b2: Option<(u16, bool, u8)>,
    pub pay: Vec<u8>,
    pub extra: Vec<(u16, Vec<u8>)>,
}

pub fn mkreq(s: &ReqSpec) -> Packet {
    let mut p = Packet::new();
    p.header.set_type(num_type(s.typ));
    p.header.code = s.code.into();
    p.header.message_id = s.mid;
    p.set_token(s.tok.clone());
    for seg in s.segs {
        p.add_option(CoapOption::UriPath, seg.clone());
    }
    if let Some((n, m, x)) = s.b1 {
        p.add_option(CoapOption::Block1, BlockValue { num: n, more: m, size_exponent: x }.into());
    }
    if let Some((n, m, x)) = s.b2 {
        p.add_option(CoapOption::Block2, BlockValue { num: n, more: m, size_exponent: x }.into());
    }
    for (n, v) in &s.extra {
        p.add_option(CoapOption::from(*n), v.clone());
    }
    p.payload = s.pay.clone();
    p
}

fn block_of(p: &Packet, o: CoapOption) -> Option<BlockValue> {
    p.get_first_option(o).and_then(|v| BlockValue::try_from(v.clone()).ok())
}

/// what a client sees: the reply as it crosses the wire
fn over_the_wire(r: &CoapResponse) -> Option<Packet> {
    r.message.to_bytes_unlimited().ok().and_then(|b| Packet::from_bytes(&b).ok())
}

// ---- Block2 download (C08 / C10) ---------------------------------------------------------------
#[derive(Clone, Debug)]
pub struct Dl {
    pub body_len: usize,
    pub m: usize,
    pub first_szx: Option<u8>,
    pub reduce: Option<(usize, u8)>, // after this many received blocks ask for a smaller size
    pub optset: u8,
    pub toklen: usize,
    pub segs: Vec<Vec<u8>>,
    pub typ: u64,
    /// an earlier transfer of another body on the same key, abandoned after this many exchanges
    pub prior: usize,
    pub reqopts: u8,           // options the client repeats on every request of the transfer (see req_extra)
}

/// options a client may carry on every request of a transfer, follow-up blocks included: none of them is
/// part of the cache key, none of them changes how blocks are served
fn req_extra(set: u8) -> Vec<(u16, Vec<u8>)> {
    match set {
        1 => vec![(6, vec![])],                                   // Observe: register
        2 => vec![(6, vec![1]), (17, vec![42])],                 // Observe: deregister, Accept
        3 => vec![(5, vec![]), (15, b"q=1".to_vec()), (60, vec![1, 0])], // If-None-Match, Uri-Query, Size1
        _ => vec![],
    }
}

fn app_options(resp: &mut CoapResponse, optset: u8) {
    match optset {
        1 => resp.message.add_option(CoapOption::ETag, vec![0xE1, 0xE2, 0xE3]),
        2 => {
            resp.message.add_option(CoapOption::ContentFormat, vec![42]);
            resp.message.add_option(CoapOption::MaxAge, vec![60]);
        }
        3 => {
            resp.message.add_option(CoapOption::ETag, vec![7; 8]);
            resp.message.add_option(CoapOption::LocationPath, b"some-location".to_vec());
            resp.message.add_option(CoapOption::from(2049), vec![1, 2, 3]);
        }
        // options with a meaning of their own to block-wise transfer or to observation: they are the
        // application's all the same and go on every block
        4 => {
            resp.message.add_option(CoapOption::ETag, vec![0xE4]);
            resp.message.add_option(CoapOption::Observe, vec![0x12, 0x34]);
        }
        5 => {
            resp.message.add_option(CoapOption::Observe, vec![]);
            resp.message.add_option(CoapOption::MaxAge, vec![0]);
            resp.message.add_option(CoapOption::Size2, vec![0x4E, 0x20]);
        }
        // options with several values: the same value twice, an empty one in between, more than one ETag
        6 => {
            for seg in [&b"a"[..], b"b", b"a"] {
                resp.message.add_option(CoapOption::LocationPath, seg.to_vec());
            }
            resp.message.add_option(CoapOption::LocationQuery, b"x=1".to_vec());
            resp.message.add_option(CoapOption::LocationQuery, b"x=1".to_vec());
        }
        7 => {
            resp.message.add_option(CoapOption::ETag, vec![2, 2]);
            resp.message.add_option(CoapOption::ETag, vec![1]);
            resp.message.add_option(CoapOption::ETag, vec![2, 2]);
            for seg in [&b"z"[..], b"", b"z", b""] {
                resp.message.add_option(CoapOption::LocationPath, seg.to_vec());
            }
        }
        _ => {}
    }
}

pub fn download(out: &mut Out, start: Instant, d: &Dl, r: &mut Rng, xid: u64) {
    let mut h = H::new(out, d.m, 3_600_000, start);
    let body = body_bytes(d.body_len, xid as usize);
    let ep = "client-a";
    let mut mid: u16 = r.next() as u16;
    // large replies leave in blocks whatever the method of the request (one method per transfer)
    let dcode: u8 = [1u8, 1, 1, 5, 2, 1, 4, 1][(xid % 8) as usize];
    let tag = json!({"x": xid, "kind": "dl"});
    let mut assembled: Vec<u8> = vec![];
    let mut app_calls = 0u64;
    let mut blocks = 0usize;
    let mut done = false;
    let mut aborted = "";
    let mut req_b2 = d.first_szx.map(|s| (0u16, false, s));
    let mut last_szx: Option<u8> = None;
    let limit = d.body_len / 16 + 8;
    // an unfinished earlier transfer of another body for the same key (then the new transfer starts
    // without a Block2 option, as C08's quantifier says)
    if d.prior > 0 {
        let other = body_bytes(150 + 16 * d.prior, 77 + xid as usize);
        let mut b2: Option<(u16, bool, u8)> = None;
        for _ in 0..d.prior {
            mid = mid.wrapping_add(1);
            let pkt = mkreq(&ReqSpec { code: dcode, typ: d.typ, mid, tok: r.bytes(d.toklen), segs: &d.segs, b1: None, b2, pay: vec![], extra: req_extra(d.reqopts) });
            let (o, mut req) = h.ireq(out, ep, &pkt, &json!({"x": xid, "kind": "dl-prior"}));
            if o["k"] == "ok" && o["handled"] == false {
                if let Some(resp) = req.response.as_mut() {
                    resp.message.header.code = 0x45.into();
                    resp.message.payload = other.clone();
                    resp.message.add_option(CoapOption::ETag, vec![0xAB; 4]);
                }
                let _ = h.iresp(out, ep, &mut req, &json!({"x": xid, "kind": "dl-prior"}));
            }
            match req.response.as_ref().and_then(over_the_wire).and_then(|p| block_of(&p, CoapOption::Block2)) {
                Some(b) if b.more => b2 = Some((b.num + 1, false, b.size_exponent)),
                _ => break,
            }
        }
        req_b2 = None;
    }
    loop {
        mid = mid.wrapping_add(1);
        let tl = if r.chance(1, 3) { r.below(d.toklen as u64 + 1) as usize } else { d.toklen };
        let pkt = mkreq(&ReqSpec { code: dcode, typ: d.typ, mid, tok: r.bytes(tl), segs: &d.segs, b1: None, b2: req_b2, pay: vec![], extra: req_extra(d.reqopts) });
        let (o, mut req) = h.ireq(out, ep, &pkt, &tag);
        if o["k"] != "ok" {
            aborted = "intercept_request failed";
            break;
        }
        if o["handled"] == false {
            // reaches the application
            app_calls += 1;
            if let Some(resp) = req.response.as_mut() {
                resp.message.header.code = 0x45.into();
                resp.message.payload = body.clone();
                app_options(resp, d.optset);
            }
            let o2 = h.iresp(out, ep, &mut req, &tag);
            if o2["k"] != "ok" {
                aborted = "intercept_response failed";
                break;
            }
        }
        let reply = match req.response.as_ref().and_then(over_the_wire) {
            Some(p) => p,
            None => {
                aborted = "no reply";
                break;
            }
        };
        blocks += 1;
        match block_of(&reply, CoapOption::Block2) {
            None => {
                assembled.extend(&reply.payload);
                done = true;
                break;
            }
            Some(b) => {
                // a client places the block at the offset its number states
                let off = b.num as usize * b.size();
                if off != assembled.len() {
                    aborted = "block number does not match the offset";
                    assembled.extend(&reply.payload);
                    break;
                }
                assembled.extend(&reply.payload);
                last_szx = Some(b.size_exponent);
                if !b.more {
                    done = true;
                    break;
                }
                let mut szx = b.size_exponent;
                if let Some((after, s2)) = d.reduce {
                    if blocks >= after && s2 < szx {
                        szx = s2;
                    }
                }
                let next = assembled.len() / (1usize << (szx + 4));
                if next > 65535 || blocks > limit {
                    aborted = "too many blocks";
                    break;
                }
                req_b2 = Some((next as u16, false, szx));
            }
        }
    }
    // after the final block the entry is released: the next request reaches the application again
    let mut after_release = json!("na");
    if done {
        mid = mid.wrapping_add(1);
        // (a transfer that completed in a single block never replaced what an unfinished earlier transfer left
        // cached for the key: a probe carrying Block2 would then start a transfer while an unfinished one is
        // cached, which is outside C08's quantifier - the probe goes without the option there)
        let b2 = if d.prior > 0 && blocks <= 1 { None } else { last_szx.map(|s| (0u16, false, s)) };
        let pkt = mkreq(&ReqSpec { code: dcode, typ: d.typ, mid, tok: r.bytes(d.toklen), segs: &d.segs, b1: None, b2, pay: vec![], extra: vec![] });
        let (o, _) = h.ireq(out, ep, &pkt, &json!({"x": xid, "kind": "dl-after"}));
        after_release = o;
    }
    out.ev(json!({"op": "xfer2", "x": xid, "M": d.m.min(i32::MAX as usize), "body": jbytes(&body), "assembled": jbytes(&assembled), "app_calls": app_calls,
                  "done": done, "aborted": aborted, "after": after_release,
                  "cfg": {"first": d.first_szx.map(|x| x as i64).unwrap_or(-1), "reduce": d.reduce.map(|x| x.1 as i64).unwrap_or(-1), "optset": d.optset}}));
}

// ---- Block1 upload (C09 / C10) ------------------------------------------------------------------
#[derive(Clone, Debug)]
pub struct Ul {
    pub body_len: usize,
    pub szx: u8,
    pub m: usize,
    pub dups: Vec<usize>,      // per block, cyclic
    pub abandoned: usize,      // blocks of a different body uploaded first and left unfinished
    pub abandoned_len: usize,  // length of that other body
    pub toklen: usize,
    pub segs: Vec<Vec<u8>>,
    pub follow: bool,          // follow the server's (possibly smaller) block size
    pub grow: usize,           // from the second block on the request carries an extra option of this many bytes
    pub reply_len: usize,      // body of the application's reply to the final block (a large one leaves as Block2 blocks)
    pub reply_optset: u8,      // options the application puts on that reply
    pub b2hint: Option<u8>,    // the final block also names a Block2 size
    pub empty_final: bool,     // a body that is a whole number of blocks is sent as full blocks (more = 1) plus an empty final one
}

pub fn upload(out: &mut Out, start: Instant, u: &Ul, r: &mut Rng, xid: u64) {
    let mut h = H::new(out, u.m, 3_600_000, start);
    let ep = "client-u";
    let mut mid: u16 = r.next() as u16;
    let size = 1usize << (u.szx + 4);
    // every method that carries a body uploads block-wise: PUT, POST, FETCH, PATCH, iPATCH (one per transfer)
    let ucode: u8 = [3u8, 2, 5, 3, 6, 7][(xid % 6) as usize];
    // ... confirmable or not (one kind per transfer)
    let utyp: u64 = if xid % 5 == 4 { 1 } else { 0 };
    let mut delivered: Vec<Value> = vec![];
    let mut aborted = "";
    // abandoned prefix of another body
    let other = body_bytes(u.abandoned_len, 1000 + xid as usize);
    for k in 0..u.abandoned {
        let lo = k * size;
        if lo >= other.len() {
            break;
        }
        let hi = ((k + 1) * size).min(other.len());
        mid = mid.wrapping_add(1);
        let pkt = mkreq(&ReqSpec { code: ucode, typ: utyp, mid, tok: r.bytes(u.toklen), segs: &u.segs, b1: Some((k as u16, true, u.szx)), b2: None, pay: other[lo..hi].to_vec(), extra: vec![] });
        let _ = h.ireq(out, ep, &pkt, &json!({"x": xid, "kind": "ul-abandoned"}));
    }
    let body = body_bytes(u.body_len, xid as usize);
    let nblocks = if body.is_empty() { 1 } else { (body.len() + size - 1) / size };
    let tag = json!({"x": xid, "kind": "ul"});
    let mut cur_szx = u.szx;
    let mut off = 0usize;
    let mut k = 0usize;
    let _ = nblocks;
    'outer: while k < body.len() / 16 + 4 {
        let sz = 1usize << (cur_szx + 4);
        let hi = (off + sz).min(body.len());
        let more = hi < body.len() || (u.empty_final && off < body.len() && body.len() % sz == 0);
        let chunk = body[off..hi].to_vec();
        let num = off / sz;
        let dup = u.dups[k % u.dups.len()].max(1);
        let mut ack: Option<BlockValue> = None;
        for _ in 0..dup {
            mid = mid.wrapping_add(1);
            let tl = if r.chance(1, 3) { r.below(u.toklen as u64 + 1) as usize } else { u.toklen };
            let mut extra = if u.grow > 0 && k > 0 { vec![(15u16, vec![b'q'; u.grow])] } else { vec![] };
            // options a client may put on the blocks of an upload: a Size1 estimate (exact, too small, too
            // large, only on block 0 or on every block), an If-Match, a Content-Format - none of them changes
            // what is reassembled
            if u.grow == 0 {
                let est = match xid % 5 { 0 => Some(body.len()), 1 => Some(body.len() + 200), 2 => Some(body.len() / 2), 3 => Some(70_000), _ => None };
                if let Some(e) = est {
                    if xid % 2 == 0 || k == 0 {
                        let mut v = (e as u32).to_be_bytes().to_vec();
                        while v.first() == Some(&0) { v.remove(0); }
                        extra.push((60u16, v));
                    }
                }
                if xid % 3 == 1 { extra.push((1u16, vec![9, 9])); }
                if xid % 7 == 2 { extra.push((12u16, vec![42])); }
                extra.sort_by_key(|x| x.0);
            }
            let b2 = if more { None } else { u.b2hint.map(|s| (0u16, false, s)) };
            let pkt = mkreq(&ReqSpec { code: ucode, typ: utyp, mid, tok: r.bytes(tl), segs: &u.segs, b1: Some((num as u16, more, cur_szx)), b2, pay: chunk.clone(), extra });
            let (o, mut req) = h.ireq(out, ep, &pkt, &tag);
            if o["k"] != "ok" {
                aborted = "intercept_request failed";
                break 'outer;
            }
            if o["handled"] == false {
                // the application sees the request
                delivered.push(jbytes(&req.message.payload));
                if let Some(resp) = req.response.as_mut() {
                    resp.message.header.code = 0x44.into();
                    app_options(resp, u.reply_optset);
                    resp.message.payload = body_bytes(u.reply_len, 40 + xid as usize);
                }
                let _ = h.iresp(out, ep, &mut req, &tag);
            }
            ack = req.response.as_ref().and_then(over_the_wire).and_then(|p| block_of(&p, CoapOption::Block1));
        }
        off = hi;
        k += 1;
        if !more {
            break;
        }
        if u.follow {
            if let Some(a) = ack {
                if a.size_exponent < cur_szx && off % (1usize << (a.size_exponent + 4)) == 0 {
                    cur_szx = a.size_exponent;
                }
            }
        }
    }
    out.ev(json!({"op": "xfer1", "x": xid, "M": u.m.min(i32::MAX as usize), "body": jbytes(&body), "delivered": delivered, "aborted": aborted,
                  "cfg": {"szx": u.szx, "abandoned": u.abandoned, "follow": u.follow}}));
}

// ---- recorders ------------------------------------------------------------------------------------
fn seg_sets() -> Vec<Vec<Vec<u8>>> {
    vec![vec![b"t".to_vec()], vec![b"a".to_vec(), b"b".to_vec()], vec![], vec![b"some-longer-segment".to_vec(), b"x".to_vec()]]
}

fn overhead_of(d: &Dl) -> usize {
    // non-payload size of the application's reply (token + options), as the handler measures it;
    // the budget must admit the client's own requests too, so the larger of the two counts
    let mut p = Packet::new();
    p.set_token(vec![0; d.toklen]);
    let mut r = CoapResponse { message: p };
    app_options(&mut r, d.optset);
    let resp = r.message.to_bytes_unlimited().map(|b| b.len()).unwrap_or(4);
    let probe = mkreq(&ReqSpec { code: 1, typ: 0, mid: 0, tok: vec![0; d.toklen], segs: &d.segs, b1: None, b2: Some((4000, false, 6)), pay: vec![], extra: vec![] });
    let req = probe.to_bytes_unlimited().map(|b| b.len()).unwrap_or(4);
    resp.max(req)
}

pub fn rec_block2(args: &Args) {
    let seed = args.u("seed", 1);
    let thorough = args.thorough();
    let mut r = Rng::new(seed ^ 0xC08);
    let mut out = Out::create(args.s("out"));
    let start = Instant::now();
    let segs = seg_sets();
    let mut xid = 0u64;
    let n = if thorough { 2500 } else { 220 };
    for i in 0..n {
        let szx_pick: Option<u8> = match r.below(4) { 0 => None, _ => Some(r.below(7) as u8) };
        let bs = 16usize << szx_pick.unwrap_or((r.below(3)) as u8);
        // body lengths: around block multiples, small exhaustive band, random
        let body_len = match i % 5 {
            0 => (i / 5) % 70,
            1 => (bs * r.range(1, 4) as usize + r.below(3) as usize).saturating_sub(1),
            2 => bs * r.range(0, 3) as usize,
            3 => r.below(if thorough { 20000 } else { 3000 }) as usize,
            _ => r.below(200) as usize,
        };
        let big_m = if i % 9 == 4 { *r.pick(&[usize::MAX, 1usize << 40, 1usize << 32]) } else { 1152 };
        let mut d = Dl { body_len, m: big_m, first_szx: szx_pick, reduce: None, optset: r.below(8) as u8, toklen: r.below(9) as usize, segs: r.pick(&segs).clone(), typ: r.below(2), prior: 0, reqopts: r.below(5) as u8 };
        if r.chance(1, 4) {
            d.reduce = Some((r.range(1, 3) as usize, r.below(4) as u8));
        }
        if r.chance(1, 5) {
            d.prior = r.range(1, 3) as usize;
            d.first_szx = None;
        }
        let ov = overhead_of(&d);
        d.m = match r.below(5) {
            0 => 1280,
            1 => ov + 28 + r.below(4) as usize,
            2 => ov + 12 + (16usize << r.below(7)) + r.below(3) as usize - 1,
            3 => (ov + 28 + r.below(1280 - 28 - ov as u64) as usize).min(1280),
            _ => 1152,
        }
        .min(1280)
        .max(ov + 28);
        // keep traces affordable: every event carries the cached body, so bound body length x exchanges
        // (long bodies only with large blocks, many blocks only with short bodies)
        let eff_bs = (16usize << d.first_szx.unwrap_or(6).min(6)).min((d.m - ov - 12).max(16));
        let eff_bs = if d.reduce.is_some() { 16 } else { eff_bs };
        if d.body_len / eff_bs > 60 {
            d.body_len = eff_bs * (20 + d.body_len % 40) + d.body_len % eff_bs;
        }
        xid += 1;
        download(&mut out, start, &d, &mut r, xid);
    }
    let n = out.finish();
    println!("{}", json!({"events": n, "transfers": xid}));
}

pub fn rec_block1(args: &Args) {
    let seed = args.u("seed", 1);
    let thorough = args.thorough();
    let mut r = Rng::new(seed ^ 0xC09);
    let mut out = Out::create(args.s("out"));
    let start = Instant::now();
    let segs = seg_sets();
    let mut xid = 0u64;
    let n = if thorough { 2500 } else { 220 };
    for i in 0..n {
        let szx = r.below(7) as u8;
        let bs = 16usize << szx;
        let body_len = match i % 4 {
            0 => (i / 4) % 70,
            1 => (bs * r.range(1, 4) as usize + r.below(3) as usize).saturating_sub(1),
            2 => bs * r.range(0, 3) as usize,
            _ => r.below(5001) as usize,
        };
        let body_len = if szx <= 1 { body_len % 1500 } else { body_len };
        let toklen = r.below(9) as usize;
        let sg = r.pick(&segs).clone();
        // budget that admits the client's block size: overhead of the request + 12 + block
        let probe = mkreq(&ReqSpec { code: 3, typ: 0, mid: 0, tok: vec![0; toklen], segs: &sg, b1: Some((300, true, szx)), b2: None, pay: vec![], extra: vec![] });
        let ov = probe.to_bytes_unlimited().unwrap().len();
        let mut m = match r.below(3) { 0 => 1280usize.max(ov + 12 + bs), 1 => ov + 12 + bs + r.below(40) as usize, _ => (ov + 12 + bs).max(1152) };
        // "no limit" configurations admit every block size too
        if i % 9 == 4 {
            m = *r.pick(&[usize::MAX, usize::MAX - 1, 1usize << 40, 1usize << 32, (1usize << 31) + 5]);
        }
        let dups: Vec<usize> = match r.below(4) { 0 => vec![1], 1 => vec![2], 2 => vec![1, 3, 1, 2], _ => vec![3, 1] };
        let abandoned = if r.chance(1, 2) { r.below(7) as usize } else { 0 };
        let u = Ul { body_len, szx, m, dups, abandoned, abandoned_len: bs * 7 + 5, toklen, segs: sg, follow: false, grow: 0, reply_len: match r.below(3) { 0 => 0, 1 => r.below(20) as usize, _ => m.min(1280) + r.below(300) as usize }, reply_optset: r.below(8) as u8, b2hint: if r.chance(1, 4) { Some(r.below(7) as u8) } else { None }, empty_final: i % 4 == 2 && r.chance(1, 2) };
        xid += 1;
        upload(&mut out, start, &u, &mut r, xid);
    }
    // uploads long enough for the Block1 value to need two bytes and for block numbers above 255 (the
    // largest bodies of C09's range at the smallest block size)
    for (body_len, szx) in if thorough { vec![(4200usize, 0u8), (5000, 0), (4097, 0), (8300, 1)] } else { vec![(4200usize, 0u8)] } {
        let probe = mkreq(&ReqSpec { code: 3, typ: 0, mid: 0, tok: vec![0; 2], segs: &segs[0], b1: Some((300, true, szx)), b2: None, pay: vec![], extra: vec![] });
        let ov = probe.to_bytes_unlimited().unwrap().len();
        let u = Ul { body_len, szx, m: ov + 12 + (16usize << szx) + 40, dups: vec![1, 1, 1, 2], abandoned: 0, abandoned_len: 0, toklen: 2, segs: segs[0].clone(), follow: false, grow: 0, reply_len: 0, reply_optset: 0, b2hint: None, empty_final: false };
        xid += 1;
        upload(&mut out, start, &u, &mut r, xid);
    }
    // requests too large for the budget without a Block1 option (4.13 rule), three-valued band
    for _ in 0..(if thorough { 600 } else { 80 }) {
        let m = r.range(40, 1280) as usize;
        let sg = r.pick(&segs).clone();
        let toklen = r.below(9) as usize;
        let probe = mkreq(&ReqSpec { code: 2, typ: 0, mid: 0, tok: vec![0; toklen], segs: &sg, b1: None, b2: None, pay: vec![], extra: vec![] });
        let ov = probe.to_bytes_unlimited().unwrap().len();
        let room = m.saturating_sub(ov);
        for pl in [room.saturating_sub(46), room.saturating_sub(13), room.saturating_sub(12), room.saturating_sub(1), room, room + 1, room + 200] {
            let mut h = H::new(&mut out, m, 3_600_000, start);
            // sometimes the key has seen other things before: a block-wise fetch of a large reply that was
            // abandoned at a later block, an upload left unfinished
            if pl % 3 == 1 {
                let tag = json!({"kind": "too-large-history"});
                let p0 = mkreq(&ReqSpec { code: 2, typ: 0, mid: r.next() as u16, tok: r.bytes(toklen), segs: &sg, b1: None, b2: Some((0, false, 0)), pay: vec![], extra: vec![] });
                let (o, mut rq) = h.ireq(&mut out, "client-p", &p0, &tag);
                if o["k"] == "ok" && o["handled"] == false {
                    if let Some(resp) = rq.response.as_mut() {
                        resp.message.payload = body_bytes(90, 4);
                    }
                    let _ = h.iresp(&mut out, "client-p", &mut rq, &tag);
                }
                let p1 = mkreq(&ReqSpec { code: 2, typ: 0, mid: r.next() as u16, tok: r.bytes(toklen), segs: &sg, b1: None, b2: Some((2, false, 0)), pay: vec![], extra: vec![] });
                let _ = h.ireq(&mut out, "client-p", &p1, &tag);
            } else if pl % 3 == 2 {
                let u0 = mkreq(&ReqSpec { code: 2, typ: 0, mid: r.next() as u16, tok: r.bytes(toklen), segs: &sg, b1: Some((0, true, 0)), b2: None, pay: body_bytes(16, 1), extra: vec![] });
                let _ = h.ireq(&mut out, "client-p", &u0, &json!({"kind": "too-large-history"}));
            }
            // whatever the method (the rule is about the size of the request, not about what it asks for)
            let code = if pl % 3 == 0 { *r.pick(&[1u8, 2, 3, 4, 5, 6, 7]) } else { 2 };
            let pkt = mkreq(&ReqSpec { code, typ: r.below(2), mid: r.next() as u16, tok: r.bytes(toklen), segs: &sg, b1: None, b2: None, pay: r.bytes(pl), extra: vec![] });
            let _ = h.ireq(&mut out, "client-p", &pkt, &json!({"kind": "too-large"}));
        }
    }
    let n = out.finish();
    println!("{}", json!({"events": n, "transfers": xid}));
}

/// C10: budgets in a band around every threshold, overhead varied, client szx 0..7 or none
pub fn rec_budget(args: &Args) {
    let seed = args.u("seed", 1);
    let thorough = args.thorough();
    let mut r = Rng::new(seed ^ 0xC10);
    let mut out = Out::create(args.s("out"));
    let start = Instant::now();
    let segs = seg_sets();
    let mut xid = 0u64;
    let rounds = if thorough { 12 } else { 1 };
    for _ in 0..rounds {
        for optset in 0..8u8 {
            let toklen = r.below(9) as usize;
            let sg = r.pick(&segs).clone();
            let base = Dl { body_len: 0, m: 0, first_szx: None, reduce: None, optset, toklen, segs: sg.clone(), typ: 0, prior: 0, reqopts: 0 };
            let ov = overhead_of(&base);
            let mut ms: Vec<usize> = vec![];
            for p in 0..7 {
                for d in -3i64..=3 {
                    ms.push((ov as i64 + 12 + (16i64 << p) + d) as usize);
                }
            }
            for d in -3i64..=3 {
                ms.push((ov as i64 + 28 + d) as usize);
                ms.push((ov as i64 + 32 + 16 + d) as usize);
            }
            ms.push(1280);
            ms.push(1279);
            for _ in 0..6 {
                ms.push(r.range(ov as u64 + 28, 1280) as usize);
            }
            for m in ms {
                if m < ov + 28 || m > 1280 {
                    continue;
                }
                let client: Option<u8> = match r.below(9) { 8 => None, s => Some(s as u8) };
                let room = m - ov - 12;
                let body_len = match r.below(3) { 0 => room.saturating_sub(1 + r.below(2) as usize), 1 => room + r.below(3) as usize, _ => 3 * room.min(300) + r.below(20) as usize };
                let d = Dl { body_len, m, first_szx: client, reduce: None, optset, toklen, segs: sg.clone(), typ: 0, prior: 0, reqopts: 0 };
                xid += 1;
                download(&mut out, start, &d, &mut r, xid);
            }
        }
        // long transfers at budgets whose room is exactly the block size: the Block2 option needs two bytes
        // from block 16 on (three from block 4096 on, thorough tier), with the longest token and with replies
        // that do and do not carry options between Uri-Path and Block2
        for p in [1u32, 2] {
            for optset in [0u8, 1, 2] {
                for toklen in [8usize, 3] {
                    // shortest path, so that the reply's overhead (not the request's) decides the budget
                    let sg = segs[0].clone();
                    let ov = {
                        let mut q = Packet::new();
                        q.set_token(vec![0; toklen]);
                        let mut rr = CoapResponse { message: q };
                        app_options(&mut rr, optset);
                        rr.message.to_bytes_unlimited().map(|b| b.len()).unwrap_or(4)
                    };
                    // room = block size + d: just too small for that size (the next smaller one is due), exactly
                    // enough, and a little more
                    for d in [-9i64, -8, -7, -4, 0, 1] {
                        let bs = 16usize << p;
                        // (every event carries the cached body in its snapshot: a transfer of b blocks costs b^2;
                        // 270 blocks reach the two-byte Block2 values of block numbers above 255 in the thorough
                        // tier, three-byte values (block 4096 on) are left to C13's exhaustive tables)
                        let nblocks = if thorough && d == 0 && toklen == 8 && p == 1 { 270 } else { 19 };
                        let dl = Dl { body_len: bs * nblocks + 3, m: (ov as i64 + 12 + bs as i64 + d) as usize, first_szx: if d % 2 == 0 { Some(p as u8) } else { None }, reduce: None, optset, toklen, segs: sg.clone(), typ: 0, prior: 0, reqopts: 0 };
                        xid += 1;
                        download(&mut out, start, &dl, &mut r, xid);
                    }
                }
            }
        }
        // uploads: the acknowledged size must let the client's next block fit
        for szx in 0..=7u8 {
            for _ in 0..(if thorough { 6 } else { 3 }) {
                let toklen = r.below(9) as usize;
                let sg = r.pick(&segs).clone();
                let probe = mkreq(&ReqSpec { code: 3, typ: 0, mid: 0, tok: vec![0; toklen], segs: &sg, b1: Some((300, true, szx)), b2: None, pay: vec![], extra: vec![] });
                let ov = probe.to_bytes_unlimited().unwrap().len();
                let bs = 16usize << szx.min(6);
                let m = match r.below(4) { 0 => ov + 28, 1 => ov + 12 + bs + r.below(3) as usize, 2 => ov + 12 + bs + 31 + r.below(3) as usize, _ => r.range(ov as u64 + 28, 1280) as usize }.min(1280).max(ov + 28);
                let u = Ul { body_len: (3 * bs + 5).min(2500), szx, m, dups: vec![1], abandoned: 0, abandoned_len: 0, toklen, segs: sg.clone(), follow: true, grow: 0, reply_len: 0, reply_optset: 0, b2hint: None, empty_final: false };
                xid += 1;
                upload(&mut out, start, &u, &mut r, xid);
                // the overhead grows in the middle of the upload (an extra option from the second block on)
                // while the budget only just admitted the first block: later acknowledgements must shrink
                let grow = *r.pick(&[13usize, 24, 40]);
                let m2 = (ov + 12 + bs + r.below(12) as usize).min(1280).max(ov + grow + 28);
                let u = Ul { body_len: (3 * bs + 5).min(2500), szx: szx.min(6), m: m2, dups: vec![1], abandoned: 0, abandoned_len: 0, toklen, segs: sg.clone(), follow: true, grow, reply_len: 0, reply_optset: 0, b2hint: None, empty_final: false };
                xid += 1;
                upload(&mut out, start, &u, &mut r, xid);
                // an abandoned upload left a buffer; a client resumes at a non-zero block with a size the budget does not admit
                if szx >= 2 {
                    let m3 = (ov + 28 + r.below(30) as usize).min(1280);
                    let mut h = H::new(&mut out, m3, 3_600_000, start);
                    for k in 0..2u16 {
                        let pkt = mkreq(&ReqSpec { code: 3, typ: 0, mid: k, tok: r.bytes(toklen), segs: &sg, b1: Some((k, true, 0)), b2: None, pay: body_bytes(16, 3), extra: vec![] });
                        let _ = h.ireq(&mut out, "client-u", &pkt, &json!({"kind": "resume-prefix"}));
                    }
                    let pkt = mkreq(&ReqSpec { code: 3, typ: 0, mid: 9, tok: r.bytes(toklen), segs: &sg, b1: Some((1, true, szx)), b2: None, pay: body_bytes(16usize << szx.min(6), 4), extra: vec![] });
                    let _ = h.ireq(&mut out, "client-u", &pkt, &json!({"kind": "resume-big"}));
                }
            }
        }
    }
    // the client's Block2 preference has to survive from intercept_request to intercept_response of the same
    // exchange however many exchanges on other keys the server handles in between (a server that defers replies)
    let crowd_sizes: Vec<usize> = if thorough { vec![1, 31, 32, 33, 64, 300, 400] } else { vec![1, 31, 32, 33, 64, 300] };
    for (i, nother) in crowd_sizes.into_iter().enumerate() {
        let szx = [0u8, 2, 1][i % 3];
        let mut h = H::new(&mut out, 1152, 3_600_000, start);
        let tag = json!({"kind": "deferred-crowd", "n": nother});
        let pkt = mkreq(&ReqSpec { code: 1, typ: 0, mid: 7, tok: vec![7, 7], segs: &segs[0], b1: None, b2: Some((0, false, szx)), pay: vec![], extra: vec![] });
        let (o, mut req) = h.ireq(&mut out, "client-d", &pkt, &tag);
        for k in 0..nother {
            let p = mkreq(&ReqSpec { code: 1, typ: 0, mid: 100 + k as u16, tok: vec![3], segs: &[format!("o{}", k).into_bytes()], b1: None, b2: None, pay: vec![], extra: vec![] });
            let (o2, mut rq) = h.ireq(&mut out, if k % 2 == 0 { "client-d" } else { "client-e" }, &p, &json!({"kind": "crowd"}));
            if o2["k"] == "ok" && o2["handled"] == false {
                if let Some(resp) = rq.response.as_mut() {
                    resp.message.payload = vec![1, 2, 3];
                }
                let _ = h.iresp(&mut out, if k % 2 == 0 { "client-d" } else { "client-e" }, &mut rq, &json!({"kind": "crowd"}));
            }
        }
        if o["k"] == "ok" && o["handled"] == false {
            if let Some(resp) = req.response.as_mut() {
                resp.message.payload = body_bytes(3000, 21);
            }
            let _ = h.iresp(&mut out, "client-d", &mut req, &tag);
        }
    }
    let n = out.finish();
    println!("{}", json!({"events": n, "transfers": xid}));
}

// ---- hostile traffic (C11) -------------------------------------------------------------------------
fn hostile_request(r: &mut Rng, m: usize) -> (Packet, &'static str) {
    let mut p = Packet::new();
    p.header.set_type(num_type(r.below(4)));
    p.header.code = (*r.pick(&[1u8, 2, 3, 3, 1, 0, 0x45, 9])).into();
    p.header.message_id = r.next() as u16;
    let tl = r.below(9) as usize;
    p.set_token(r.bytes(tl));
    let seg: &[u8] = *r.pick(&[&b"up"[..], &b"up"[..], &b"x"[..], &[0xFF, 0xFE][..]]);
    if r.chance(1, 10) {
        // path segments around the 255-byte limit of RFC 7252, ASCII and with a multi-byte character
        // across offsets 254..257 (valid UTF-8), and an empty one
        let ascii = *r.pick(&[253usize, 254, 255, 256, 300]);
        let mut long: Vec<u8> = vec![b'a'; ascii];
        match r.below(4) { 0 => long.extend("é".as_bytes()), 1 => long.extend("漢".as_bytes()), 2 => long.extend("😁x".as_bytes()), _ => {} }
        p.add_option(CoapOption::UriPath, long);
        if r.chance(1, 2) {
            p.add_option(CoapOption::UriPath, vec![]);
        }
    } else {
        p.add_option(CoapOption::UriPath, seg.to_vec());
    }
    let nums = [0u16, 1, 2, 100, 4095, 4096, 65535];
    for (opt, chance) in [(CoapOption::Block1, 2), (CoapOption::Block2, 3)] {
        if r.chance(1, chance) {
            let v: Vec<u8> = match r.below(6) {
                0 => vec![],
                1 => r.bytes(3),
                2 => r.bytes(4),
                _ => BlockValue { num: *r.pick(&nums), more: r.chance(1, 2), size_exponent: r.below(8) as u8 }.into(),
            };
            p.add_option(opt, v.clone());
            if r.chance(1, 8) {
                p.add_option(opt, v);
            }
        }
    }
    // option bloat: below, at and above the budget, and above 1280
    if r.chance(1, 2) {
        let base = p.to_bytes_unlimited().map(|b| b.len()).unwrap_or(0);
        let target = match r.below(6) { 0 => m.saturating_sub(13), 1 => m.saturating_sub(12), 2 => m.saturating_sub(11), 3 => 1281, 4 => 1400, _ => r.below(1400) as usize };
        let mut need = target.saturating_sub(base);
        while need > 3 {
            let l = need.min(258).saturating_sub(3);
            p.add_option(CoapOption::from(3000), r.bytes(l));
            need = need.saturating_sub(l + 3);
        }
    }
    let pl = *r.pick(&[0usize, 0, 1, 15, 16, 17, 64, 1024, 1200]);
    p.payload = r.bytes(pl);
    (p, "hostile")
}

fn hostile_reply(r: &mut Rng, resp: &mut CoapResponse) {
    resp.message.header.code = (*r.pick(&[0x45u8, 0x44, 0x84])).into();
    let bl = *r.pick(&[0usize, 1, 15, 16, 17, 100, 1151, 1152, 5000, 10000]);
    resp.message.payload = body_bytes(bl, 3);
    match r.below(6) {
        0 => {
            let l = *r.pick(&[200usize, 1100, 1300]);
            resp.message.add_option(CoapOption::from(3000), r.bytes(l))
        }
        1 => resp.message.add_option(CoapOption::Block2, BlockValue { num: 0, more: true, size_exponent: 2 }.into()),
        2 => {
            resp.message.add_option(CoapOption::Block2, vec![1]);
            resp.message.clear_option(CoapOption::Block2);
        }
        3 => resp.message.add_option(CoapOption::ETag, vec![1, 2, 3, 4]),
        _ => {}
    }
}

pub fn rec_hostile(args: &Args) {
    let seed = args.u("seed", 1);
    let thorough = args.thorough();
    let mut r = Rng::new(seed ^ 0xC11);
    let mut out = Out::create(args.s("out"));
    let start = Instant::now();
    let n = if thorough { 40000 } else { 1800 };
    for _ in 0..n {
        let m = match r.below(6) { 0 => r.below(65) as usize, 1 => 1152, 2 => r.below(5001) as usize, 3 => *r.pick(&[0usize, 19, 20, 21, 22, 32]), 4 => 1280, _ => r.range(16, 80) as usize };
        let mut h = H::new(&mut out, m, 3_600_000, start);
        // half of the sessions start from state: an upload in progress on the key most hostile requests
        // use, then follow-ups aimed at the buffered range whose payload length ignores the declared size
        let staged = r.chance(1, 2);
        let mut staged_blocks = 0u16;
        let pszx = r.below(4) as u8;
        if staged {
            staged_blocks = r.range(1, 3) as u16;
            for k in 0..staged_blocks {
                let pkt = mkreq(&ReqSpec { code: 3, typ: 0, mid: k, tok: vec![7], segs: &[b"up".to_vec()], b1: Some((k, true, pszx)), b2: None, pay: body_bytes(1usize << (pszx + 4), 6), extra: vec![] });
                let _ = h.ireq(&mut out, "h1", &pkt, &json!({"kind": "staged-prefix"}));
            }
        }
        for _ in 0..r.range(1, 6) {
            if staged && r.chance(1, 2) {
                let szx = r.below(8) as u8;
                let size = 1usize << (szx + 4);
                let buffered = (staged_blocks as usize) << (pszx + 4);
                let num = match r.below(4) { 0 => r.below(staged_blocks as u64 + 2) as u16, 1 => (buffered / size) as u16, 2 => (buffered / size).saturating_sub(1) as u16, _ => r.below(6) as u16 };
                let pl = *r.pick(&[0usize, 1, size - 1, size, size + 1, size + 17, 2 * size, 1200]);
                let pkt = mkreq(&ReqSpec { code: 3, typ: r.below(2), mid: r.next() as u16, tok: vec![7], segs: &[b"up".to_vec()], b1: Some((num, r.chance(2, 3), szx)), b2: None, pay: body_bytes(pl.min(1300), 8), extra: vec![] });
                let (o, mut req) = h.ireq(&mut out, "h1", &pkt, &json!({"kind": "staged"}));
                if o["k"] == "ok" && o["handled"] == false {
                    if let Some(resp) = req.response.as_mut() {
                        hostile_reply(&mut r, resp);
                    }
                    let _ = h.iresp(&mut out, "h1", &mut req, &json!({"kind": "staged"}));
                }
                continue;
            }
            let (pkt, kind) = hostile_request(&mut r, m);
            let ep = *r.pick(&["h1", "h1", "h2"]);
            let (o, mut req) = h.ireq(&mut out, ep, &pkt, &json!({"kind": kind}));
            if o["k"] == "ok" && o["handled"] == false {
                if let Some(resp) = req.response.as_mut() {
                    hostile_reply(&mut r, resp);
                }
                let _ = h.iresp(&mut out, ep, &mut req, &json!({"kind": kind}));
            }
        }
    }
    // directed: the budgets at which the room is exactly 0 / 1 / 15 / 16 with a block option present
    for typ in 0..4u64 {
        for b1 in [true, false] {
            let probe = mkreq(&ReqSpec { code: 3, typ, mid: 7, tok: vec![1, 2], segs: &[b"up".to_vec()], b1: if b1 { Some((0, true, 0)) } else { None }, b2: if b1 { None } else { Some((0, false, 0)) }, pay: vec![0; 16], extra: vec![] });
            let ov = probe.to_bytes_unlimited().unwrap().len() - 17;
            for d in [-1i64, 0, 1, 2, 15, 16, 17] {
                let m = (ov as i64 + 12 + d).max(0) as usize;
                let mut h = H::new(&mut out, m, 3_600_000, start);
                let (o, mut req) = h.ireq(&mut out, "h1", &probe, &json!({"kind": "room"}));
                if o["k"] == "ok" && o["handled"] == false {
                    if let Some(resp) = req.response.as_mut() {
                        resp.message.payload = body_bytes(40, 1);
                    }
                    let _ = h.iresp(&mut out, "h1", &mut req, &json!({"kind": "room"}));
                }
            }
        }
    }
    // directed: a buffered prefix, then one block whose declared range lies inside / across / beyond the
    // buffer and whose payload is shorter than, equal to or longer than the declared size
    for pszx in [0u8, 2] {
        let psize = 1usize << (pszx + 4);
        for prefix in if thorough { vec![1usize, 3] } else { vec![2usize] } {
            for szx in [0u8, 1, 2, 6] {
                let size = 1usize << (szx + 4);
                for num in if thorough { vec![0u16, 1, 2, 3, 5, 12] } else { vec![0u16, 1, 2, 3, 12] } {
                    for pl in [0usize, 1, size - 1, size, size + 1, size + 17, 1200] {
                        let more = (num as usize + pl) % 2 == 0;
                        let mut h = H::new(&mut out, 4000, 3_600_000, start);
                        for k in 0..prefix {
                            let pkt = mkreq(&ReqSpec { code: 3, typ: 0, mid: k as u16, tok: vec![9], segs: &[b"up".to_vec()], b1: Some((k as u16, true, pszx)), b2: None, pay: body_bytes(psize, 2), extra: vec![] });
                            let _ = h.ireq(&mut out, "h1", &pkt, &json!({"kind": "overlap-prefix"}));
                        }
                        let pkt = mkreq(&ReqSpec { code: 3, typ: 0, mid: 50, tok: vec![9], segs: &[b"up".to_vec()], b1: Some((num, more, szx)), b2: None, pay: body_bytes(pl, 4), extra: vec![] });
                        let (o, mut req) = h.ireq(&mut out, "h1", &pkt, &json!({"kind": "overlap"}));
                        if o["k"] == "ok" && o["handled"] == false {
                            let _ = h.iresp(&mut out, "h1", &mut req, &json!({"kind": "overlap"}));
                        }
                    }
                }
            }
        }
    }
    // directed: Block2 requests that name a block at, just before and beyond the end of a body - a cached one
    // (after an honest block 0) and one the application has just produced (first request naming a later block)
    for szx in [0u8, 1, 2] {
        let size = 16usize << szx;
        for blocks in [1usize, 2, 3] {
            for dlen in [-1i64, 0, 1] {
                let len = ((blocks * size) as i64 + dlen) as usize;
                let body = body_bytes(len, 9);
                // budget that yields blocks of `size` for a reply without options and a 1-byte token
                let m = 4 + 1 + 4 + 12 + size + 3;
                for probe_szx in 0..=szx {
                    let psize = 16usize << probe_szx;
                    for num in [len / psize, (len / psize).saturating_sub(1), len / psize + 1, (len + psize - 1) / psize] {
                        // cached path
                        let mut h = H::new(&mut out, m, 3_600_000, start);
                        let tag = json!({"kind": "at-the-end"});
                        let first = mkreq(&ReqSpec { code: 1, typ: 0, mid: 1, tok: vec![4], segs: &[b"big".to_vec()], b1: None, b2: Some((0, false, szx)), pay: vec![], extra: vec![] });
                        let (o, mut req) = h.ireq(&mut out, "h1", &first, &tag);
                        if o["k"] == "ok" && o["handled"] == false {
                            if let Some(resp) = req.response.as_mut() {
                                resp.message.payload = body.clone();
                            }
                            let _ = h.iresp(&mut out, "h1", &mut req, &tag);
                        }
                        let probe = mkreq(&ReqSpec { code: 1, typ: 0, mid: 2, tok: vec![4], segs: &[b"big".to_vec()], b1: None, b2: Some((num as u16, false, probe_szx)), pay: vec![], extra: vec![] });
                        let (o, mut req) = h.ireq(&mut out, "h1", &probe, &tag);
                        if o["k"] == "ok" && o["handled"] == false {
                            if let Some(resp) = req.response.as_mut() {
                                resp.message.payload = body.clone();
                            }
                            let _ = h.iresp(&mut out, "h1", &mut req, &tag);
                        }
                        // the honest client goes on with block 1
                        let next = mkreq(&ReqSpec { code: 1, typ: 0, mid: 3, tok: vec![4], segs: &[b"big".to_vec()], b1: None, b2: Some((1, false, szx)), pay: vec![], extra: vec![] });
                        let (o, mut req) = h.ireq(&mut out, "h1", &next, &tag);
                        if o["k"] == "ok" && o["handled"] == false {
                            if let Some(resp) = req.response.as_mut() {
                                resp.message.payload = body.clone();
                            }
                            let _ = h.iresp(&mut out, "h1", &mut req, &tag);
                        }
                        // fresh path: the first request names that block
                        let mut h = H::new(&mut out, m, 3_600_000, start);
                        let (o, mut req) = h.ireq(&mut out, "h2", &probe, &tag);
                        if o["k"] == "ok" && o["handled"] == false {
                            if let Some(resp) = req.response.as_mut() {
                                resp.message.payload = body.clone();
                            }
                            let _ = h.iresp(&mut out, "h2", &mut req, &tag);
                        }
                    }
                }
            }
        }
    }
    // directed: jumps around the 16 KiB reserve, with and without a buffered prefix
    for szx in [0u8, 6, 7] {
        let size = 1usize << (szx + 4);
        for prefix in [0usize, 1, 3] {
            for extra in [-1i64, 0, 1] {
                let mut h = H::new(&mut out, 4000, 3_600_000, start);
                for k in 0..prefix {
                    let pkt = mkreq(&ReqSpec { code: 3, typ: 0, mid: k as u16, tok: vec![9], segs: &[b"up".to_vec()], b1: Some((k as u16, true, szx)), b2: None, pay: body_bytes(size, 2), extra: vec![] });
                    let _ = h.ireq(&mut out, "h1", &pkt, &json!({"kind": "jump-prefix"}));
                }
                // smallest block number whose end lies `extra` blocks beyond buffered + 16 KiB
                let target_end = prefix * size + 16384;
                let num = ((target_end / size) as i64 + extra).max(0) as u16;
                let pkt = mkreq(&ReqSpec { code: 3, typ: 0, mid: 99, tok: vec![9], segs: &[b"up".to_vec()], b1: Some((num, true, szx)), b2: None, pay: body_bytes(size.min(1100), 4), extra: vec![] });
                let _ = h.ireq(&mut out, "h1", &pkt, &json!({"kind": "jump"}));
                let pkt = mkreq(&ReqSpec { code: 3, typ: 0, mid: 100, tok: vec![9], segs: &[b"up".to_vec()], b1: Some((prefix as u16, false, szx)), b2: None, pay: vec![5; 3], extra: vec![] });
                let (o, mut req) = h.ireq(&mut out, "h1", &pkt, &json!({"kind": "jump-final"}));
                if o["k"] == "ok" && o["handled"] == false {
                    let _ = h.iresp(&mut out, "h1", &mut req, &json!({"kind": "jump-final"}));
                }
            }
        }
    }
    let n = out.finish();
    println!("{}", json!({"events": n}));
}

// ---- scripted transfers, interleavings (C12) and TLC-generated scripts -----------------------------
/// A script step: {"op":"ireq","ep":..,"req":msg,"app":{"some":bool,"v":{code,pay,opts}}} | {"op":"sleep","ms":n}
/// The application reply is applied only if the request reaches the application.
fn run_step(h: &mut H, out: &mut Out, st: &Value, tag: &Value) -> Value {
    match st["op"].as_str().unwrap() {
        "sleep" => {
            let ms = st["ms"].as_u64().unwrap();
            std::thread::sleep(Duration::from_millis(ms));
            out.ev(json!({"op": "sleep", "ms": ms}));
            json!(null)
        }
        _ => {
            let pkt = vpkt(&st["req"]);
            let ep = st["ep"].as_str().unwrap();
            let (o, mut req) = h.ireq(out, ep, &pkt, tag);
            if o["k"] == "ok" && o["handled"] == false {
                if let (Some(resp), true) = (req.response.as_mut(), st["app"]["some"] == true) {
                    let a = &st["app"]["v"];
                    resp.message.header.code = (a["code"].as_u64().unwrap() as u8).into();
                    resp.message.payload = vbytes(&a["pay"]);
                    for e in a["opts"].as_array().unwrap() {
                        for v in e[1].as_array().unwrap() {
                            resp.message.add_option(CoapOption::from(e[0].as_u64().unwrap() as u16), vbytes(v));
                        }
                    }
                }
                let _ = h.iresp(out, ep, &mut req, tag);
            }
            jresp(&req.response)
        }
    }
}

/// spec -> impl: TLC-generated scripts {"M":..,"ttl":..,"steps":[...]} executed on the real handler;
/// the recorded events go to Trace_BlockHandler like any other trace.
pub fn rec_script(args: &Args) {
    let mut out = Out::create(args.s("out"));
    let start = Instant::now();
    let mut n = 0u64;
    let maxn = args.u("max", u64::MAX);
    for v in read_vectors(args.s("in")) {
        if n >= maxn {
            break;
        }
        n += 1;
        let mut h = H::new(&mut out, v["M"].as_u64().unwrap() as usize, v["ttl"].as_u64().unwrap(), start);
        let tag = json!({"kind": "script", "n": n});
        let tick = v["tick"].as_u64().unwrap_or(0);
        // exchanges whose request half has run and whose response half is still to come
        let mut pending: Vec<(String, u16, CoapRequest<Ep>)> = vec![];
        for st in v["steps"].as_array().unwrap() {
            if st["op"] == "ireq_only" {
                let pkt = vpkt(&st["req"]);
                let ep = st["ep"].as_str().unwrap();
                let (o, req) = h.ireq(&mut out, ep, &pkt, &tag);
                if o["k"] == "ok" && o["handled"] == false && req.response.is_some() {
                    pending.push((ep.to_string(), pkt.header.message_id, req));
                }
                continue;
            }
            if st["op"] == "iresp_only" {
                let ep = st["ep"].as_str().unwrap();
                let mid = st["mid"].as_u64().unwrap() as u16;
                if let Some(ix) = pending.iter().position(|p| p.0 == ep && p.1 == mid) {
                    let (_, _, mut req) = pending.remove(ix);
                    if let (Some(resp), true) = (req.response.as_mut(), st["app"]["some"] == true) {
                        let a = &st["app"]["v"];
                        resp.message.header.code = (a["code"].as_u64().unwrap() as u8).into();
                        resp.message.payload = vbytes(&a["pay"]);
                        for e in a["opts"].as_array().unwrap() {
                            for x in e[1].as_array().unwrap() {
                                resp.message.add_option(CoapOption::from(e[0].as_u64().unwrap() as u16), vbytes(x));
                            }
                        }
                    }
                    let _ = h.iresp(&mut out, ep, &mut req, &tag);
                }
                continue;
            }
            if st["op"] == "sleep" && st.get("ms").is_none() {
                // model ticks are mapped to real time: the trace specification judges by the logged times
                let ms = st["ticks"].as_u64().unwrap_or(1) * tick;
                run_step(&mut h, &mut out, &json!({"op": "sleep", "ms": ms}), &tag);
            } else {
                run_step(&mut h, &mut out, st, &tag);
            }
        }
    }
    let e = out.finish();
    println!("{}", json!({"events": e, "scripts": n}));
}

fn transfer_script(kind: usize, ep: &str, code: u8, segs: &[Vec<u8>], r: &mut Rng, salt: usize, len: usize) -> Vec<Value> {
    let mut steps = vec![];
    let mut mid = (salt as u16).wrapping_mul(1000);
    if kind == 0 {
        // Block1 upload of len blocks (szx 0), last one final, then nothing
        let body = body_bytes(16 * len - 5, salt);
        for k in 0..len {
            mid += 1;
            let hi = (16 * (k + 1)).min(body.len());
            let tl = r.below(9) as usize;
            let pkt = mkreq(&ReqSpec { code, typ: 0, mid, tok: r.bytes(tl), segs, b1: Some((k as u16, k + 1 < len, 0)), b2: None, pay: body[16 * k..hi].to_vec(), extra: vec![] });
            steps.push(json!({"op": "ireq", "ep": ep, "req": jpkt(&pkt), "app": {"some": true, "v": {"code": 0x44, "pay": [], "opts": []}}}));
        }
    } else {
        // Block2 download of len blocks (szx 0)
        let body = body_bytes(16 * len - 3, salt);
        for k in 0..len {
            mid += 1;
            let tl = r.below(9) as usize;
            let pkt = mkreq(&ReqSpec { code, typ: 0, mid, tok: r.bytes(tl), segs, b1: None, b2: Some((k as u16, false, 0)), pay: vec![], extra: vec![] });
            steps.push(json!({"op": "ireq", "ep": ep, "req": jpkt(&pkt), "app": {"some": true, "v": {"code": 0x45, "pay": jbytes(&body), "opts": [[4, [[salt as u8]]]]}}}));
        }
    }
    steps
}

pub fn rec_isolation(args: &Args) {
    let seed = args.u("seed", 1);
    let thorough = args.thorough();
    let mut r = Rng::new(seed ^ 0xC12);
    let mut out = Out::create(args.s("out"));
    let start = Instant::now();
    let ab = vec![b"a".to_vec(), b"b".to_vec()];
    let a_b = vec![b"a/b".to_vec()];
    let a = vec![b"a".to_vec()];
    // paths that differ only by what a normalisation would fold: trailing / leading empty segment, case,
    // an undecodable segment next to its lossy rendering
    let a_ = vec![b"a".to_vec(), vec![]];
    let _a = vec![vec![], b"a".to_vec()];
    let upper = vec![b"A".to_vec()];
    let raw = vec![vec![0xFF]];
    let lossy = vec!["\u{FFFD}".as_bytes().to_vec()];
    // pairs of keys that differ in exactly one of endpoint / method / path
    let keysets: Vec<Vec<(&str, u8, Vec<Vec<u8>>)>> = vec![
        vec![("e1", 1, a.clone()), ("e1", 1, a_.clone())],
        vec![("e1", 3, a_.clone()), ("e1", 3, a.clone()), ("e1", 3, _a.clone())],
        vec![("e1", 1, a.clone()), ("e1", 1, upper.clone())],
        vec![("e1", 3, raw.clone()), ("e1", 3, lossy.clone())],
        vec![("e1", 3, ab.clone()), ("e2", 3, ab.clone())],
        vec![("e1", 3, ab.clone()), ("e1", 2, ab.clone())],
        vec![("e1", 1, ab.clone()), ("e1", 1, a_b.clone())],
        vec![("e1", 1, a.clone()), ("e1", 1, ab.clone())],
        vec![("e1", 3, ab.clone()), ("e2", 3, ab.clone()), ("e1", 3, a_b.clone())],
        vec![("e1", 1, ab.clone()), ("e1", 5, ab.clone()), ("e2", 1, a.clone())],
    ];
    let mut xid = 0u64;
    let rounds = if thorough { 60 } else { 5 };
    for _ in 0..rounds {
        for ks in &keysets {
            let len = r.range(3, if thorough { 8 } else { 5 }) as usize;
            let scripts: Vec<Vec<Value>> = ks.iter().enumerate().map(|(i, (ep, code, segs))| {
                let kind = if *code == 1 || *code == 5 { 1 } else { (i + r.below(2) as usize) % 2 };
                transfer_script(kind, ep, *code, segs, &mut r, i + 1, len)
            }).collect();
            // solo runs
            let mut solo: Vec<Vec<Value>> = vec![];
            for s in &scripts {
                let mut h = H::new(&mut out, 1152, 3_600_000, start);
                solo.push(s.iter().map(|st| run_step(&mut h, &mut out, st, &json!({"kind": "solo"}))).collect());
            }
            // random interleavings of the same scripts on one handler
            for _ in 0..(if thorough { 6 } else { 3 }) {
                xid += 1;
                let mut h = H::new(&mut out, 1152, 3_600_000, start);
                let mut pos = vec![0usize; scripts.len()];
                let mut inter: Vec<Vec<Value>> = vec![vec![]; scripts.len()];
                let mut order = vec![];
                loop {
                    let avail: Vec<usize> = (0..scripts.len()).filter(|i| pos[*i] < scripts[*i].len()).collect();
                    if avail.is_empty() {
                        break;
                    }
                    let i = *r.pick(&avail);
                    order.push(i);
                    let resp = run_step(&mut h, &mut out, &scripts[i][pos[i]], &json!({"kind": "inter", "x": xid, "t": i}));
                    inter[i].push(resp);
                    pos[i] += 1;
                }
                out.ev(json!({"op": "solo_cmp", "x": xid, "order": order, "solo": solo, "inter": inter}));
            }
        }
    }
    // a transfer whose steps are separated by N plain requests on other keys of the same endpoint: however
    // many, it sees what it sees when run alone
    for (kind, nother) in if thorough { vec![(0usize, 20usize), (1, 20), (0, 300), (1, 300)] } else { vec![(0usize, 20usize), (1, 40)] } {
        let script = transfer_script(kind, "e1", if kind == 0 { 3 } else { 1 }, &ab, &mut r, 5 + kind, 4);
        let mut hs = H::new(&mut out, 1152, 3_600_000, start);
        let solo: Vec<Value> = script.iter().map(|st| run_step(&mut hs, &mut out, st, &json!({"kind": "solo"}))).collect();
        xid += 1;
        let mut h = H::new(&mut out, 1152, 3_600_000, start);
        let mut inter: Vec<Value> = vec![];
        let mut other = 0usize;
        for st in &script {
            inter.push(run_step(&mut h, &mut out, st, &json!({"kind": "crowded", "x": xid})));
            for _ in 0..nother {
                other += 1;
                let p = mkreq(&ReqSpec { code: 1, typ: 0, mid: other as u16, tok: vec![3], segs: &[format!("o{}", other).into_bytes()], b1: None, b2: None, pay: vec![], extra: vec![] });
                let st2 = json!({"op": "ireq", "ep": "e1", "req": jpkt(&p), "app": {"some": true, "v": {"code": 0x45, "pay": [1, 2, 3], "opts": []}}});
                let _ = run_step(&mut h, &mut out, &st2, &json!({"kind": "crowd"}));
            }
        }
        out.ev(json!({"op": "solo_cmp", "x": xid, "order": [], "solo": [solo], "inter": [inter]}));
    }
    let n = out.finish();
    println!("{}", json!({"events": n, "interleavings": xid}));
}

// ---- expiry (C20) ------------------------------------------------------------------------------------
pub fn rec_expiry(args: &Args) {
    let seed = args.u("seed", 1);
    let thorough = args.thorough();
    let mut r = Rng::new(seed ^ 0xC20);
    let mut out = Out::create(args.s("out"));
    let start = Instant::now();
    let seg = vec![b"big".to_vec()];
    let up = vec![b"up".to_vec()];
    let mut mid = 0u16;
    let mut next_mid = || { mid = mid.wrapping_add(1); mid };
    // retention: one hour expiry, N intervening requests on other keys
    for n in if thorough { vec![1usize, 2, 10, 100, 500, 2000] } else { vec![1usize, 7, 300, 1100] } {
        let mut h = H::new(&mut out, 1152, 3_600_000, start);
        let tag = json!({"kind": "retention", "n": n});
        let body = body_bytes(100, 5);
        let p0 = mkreq(&ReqSpec { code: 1, typ: 0, mid: next_mid(), tok: vec![1], segs: &seg, b1: None, b2: Some((0, false, 0)), pay: vec![], extra: vec![] });
        // (the reply says "Max-Age: 0" for every other n: of no concern to the handler's own retention)
        let keeper_opts = if n % 2 == 1 { json!([[14, [[]]]]) } else { json!([]) };
        run_step(&mut h, &mut out, &json!({"op": "ireq", "ep": "keeper", "req": jpkt(&p0), "app": {"some": true, "v": {"code": 0x45, "pay": jbytes(&body), "opts": keeper_opts}}}), &tag);
        let u0 = mkreq(&ReqSpec { code: 3, typ: 0, mid: next_mid(), tok: vec![2], segs: &up, b1: Some((0, true, 0)), b2: None, pay: body_bytes(16, 9), extra: vec![] });
        run_step(&mut h, &mut out, &json!({"op": "ireq", "ep": "keeper", "req": jpkt(&u0), "app": {"some": false}}), &tag);
        for i in 0..n {
            // other keys: other endpoints, other paths, other methods; the snapshot grows, so log sparsely
            let other = mkreq(&ReqSpec { code: *r.pick(&[1u8, 2, 3]), typ: 0, mid: next_mid(), tok: vec![3], segs: &[format!("o{}", i % 50).into_bytes()], b1: None, b2: None, pay: vec![], extra: vec![] });
            let mut req = CoapRequest::from_packet(other, Ep::new(&format!("other{}", i % 17)));
            let _ = guarded(|| h.h.intercept_request(&mut req));
            // a complete exchange: the application answers and the reply passes through the handler
            if let Some(resp) = req.response.as_mut() {
                resp.message.payload = vec![7; i % 40];
            }
            let _ = guarded(|| h.h.intercept_response(&mut req));
        }
        out.ev(json!({"op": "unlogged", "n": n}));
        let p1 = mkreq(&ReqSpec { code: 1, typ: 0, mid: next_mid(), tok: vec![4], segs: &seg, b1: None, b2: Some((1, false, 0)), pay: vec![], extra: vec![] });
        run_step(&mut h, &mut out, &json!({"op": "ireq", "ep": "keeper", "req": jpkt(&p1), "app": {"some": true, "v": {"code": 0x45, "pay": [1, 2, 3], "opts": []}}}), &json!({"kind": "retention-follow", "n": n}));
        let u1 = mkreq(&ReqSpec { code: 3, typ: 0, mid: next_mid(), tok: vec![5], segs: &up, b1: Some((1, false, 0)), b2: None, pay: vec![7, 7], extra: vec![] });
        run_step(&mut h, &mut out, &json!({"op": "ireq", "ep": "keeper", "req": jpkt(&u1), "app": {"some": true, "v": {"code": 0x44, "pay": [], "opts": []}}}), &json!({"kind": "retention-follow", "n": n}));
    }
    // expiry: 20-60 ms, idle at least four times that
    for ttl in if thorough { vec![20u64, 30, 40, 50, 60, 25, 35, 45] } else { vec![20u64, 60] } {
        let mut h = H::new(&mut out, 1152, ttl, start);
        let tag = json!({"kind": "expiry", "ttl": ttl});
        let body = body_bytes(100, 6);
        let p0 = mkreq(&ReqSpec { code: 1, typ: 0, mid: next_mid(), tok: vec![1], segs: &seg, b1: None, b2: Some((0, false, 0)), pay: vec![], extra: vec![] });
        run_step(&mut h, &mut out, &json!({"op": "ireq", "ep": "sleeper", "req": jpkt(&p0), "app": {"some": true, "v": {"code": 0x45, "pay": jbytes(&body), "opts": []}}}), &tag);
        let u0 = mkreq(&ReqSpec { code: 3, typ: 0, mid: next_mid(), tok: vec![2], segs: &up, b1: Some((0, true, 0)), b2: None, pay: body_bytes(16, 9), extra: vec![] });
        run_step(&mut h, &mut out, &json!({"op": "ireq", "ep": "sleeper", "req": jpkt(&u0), "app": {"some": false}}), &tag);
        run_step(&mut h, &mut out, &json!({"op": "sleep", "ms": ttl * 4 + 5}), &tag);
        let p1 = mkreq(&ReqSpec { code: 1, typ: 0, mid: next_mid(), tok: vec![4], segs: &seg, b1: None, b2: Some((1, false, 0)), pay: vec![], extra: vec![] });
        run_step(&mut h, &mut out, &json!({"op": "ireq", "ep": "sleeper", "req": jpkt(&p1), "app": {"some": true, "v": {"code": 0x45, "pay": jbytes(&body_bytes(40, 8)), "opts": []}}}), &json!({"kind": "expiry-follow"}));
        run_step(&mut h, &mut out, &json!({"op": "sleep", "ms": ttl * 4 + 5}), &tag);
        let u1 = mkreq(&ReqSpec { code: 3, typ: 0, mid: next_mid(), tok: vec![5], segs: &up, b1: Some((1, false, 0)), b2: None, pay: vec![7, 7], extra: vec![] });
        run_step(&mut h, &mut out, &json!({"op": "ireq", "ep": "sleeper", "req": jpkt(&u1), "app": {"some": true, "v": {"code": 0x44, "pay": [], "opts": []}}}), &json!({"kind": "expiry-follow"}));
    }
    // every use counts as a use: a transfer kept busy only by repeats of the last block request (lost
    // replies), each gap well below the expiry, the total well above it - the next block still comes from the cache
    for (ttl, refused) in if thorough { vec![(60u64, false), (100, false), (150, false), (100, true), (150, true)] } else { vec![(80u64, false), (100, true)] } {
        let mut h = H::new(&mut out, 1152, ttl, start);
        let tag = json!({"kind": "keepalive", "ttl": ttl, "refused": refused});
        let body = body_bytes(100, 6);
        let app = json!({"some": true, "v": {"code": 0x45, "pay": jbytes(&body), "opts": []}});
        for k in 0..2u16 {
            let p = mkreq(&ReqSpec { code: 1, typ: 0, mid: next_mid(), tok: vec![1], segs: &seg, b1: None, b2: Some((k, false, 0)), pay: vec![], extra: vec![] });
            run_step(&mut h, &mut out, &json!({"op": "ireq", "ep": "sleeper", "req": jpkt(&p), "app": app}), &tag);
        }
        for i in 0..6 {
            run_step(&mut h, &mut out, &json!({"op": "sleep", "ms": ttl * 3 / 10}), &tag);
            // every second use is a request for this key that the handler refuses (a body beyond the budget
            // sent without Block1): the key is in use all the same
            let p = if i % 2 == 1 && refused {
                mkreq(&ReqSpec { code: 1, typ: 0, mid: next_mid(), tok: vec![1], segs: &seg, b1: None, b2: None, pay: vec![0x55; 1300], extra: vec![] })
            } else if refused {
                continue;
            } else {
                mkreq(&ReqSpec { code: 1, typ: 0, mid: next_mid(), tok: vec![1], segs: &seg, b1: None, b2: Some((1, false, 0)), pay: vec![], extra: vec![] })
            };
            run_step(&mut h, &mut out, &json!({"op": "ireq", "ep": "sleeper", "req": jpkt(&p), "app": {"some": false}}), &tag);
        }
        run_step(&mut h, &mut out, &json!({"op": "sleep", "ms": ttl * 3 / 10}), &tag);
        let p = mkreq(&ReqSpec { code: 1, typ: 0, mid: next_mid(), tok: vec![1], segs: &seg, b1: None, b2: Some((2, false, 0)), pay: vec![], extra: vec![] });
        run_step(&mut h, &mut out, &json!({"op": "ireq", "ep": "sleeper", "req": jpkt(&p), "app": {"some": true, "v": {"code": 0x45, "pay": jbytes(&body_bytes(40, 8)), "opts": []}}}), &json!({"kind": "keepalive-next"}));
        // the same for an upload: repeats of the last non-final block
        let mut h = H::new(&mut out, 1152, ttl, start);
        for k in 0..2u16 {
            let p = mkreq(&ReqSpec { code: 3, typ: 0, mid: next_mid(), tok: vec![2], segs: &up, b1: Some((k, true, 0)), b2: None, pay: body_bytes(16, 9 + k as usize), extra: vec![] });
            run_step(&mut h, &mut out, &json!({"op": "ireq", "ep": "sleeper", "req": jpkt(&p), "app": {"some": false}}), &tag);
        }
        for i in 0..6 {
            run_step(&mut h, &mut out, &json!({"op": "sleep", "ms": ttl * 3 / 10}), &tag);
            let p = if i % 2 == 1 && refused {
                mkreq(&ReqSpec { code: 3, typ: 0, mid: next_mid(), tok: vec![2], segs: &up, b1: None, b2: None, pay: vec![0x55; 1300], extra: vec![] })
            } else if refused {
                continue;
            } else {
                mkreq(&ReqSpec { code: 3, typ: 0, mid: next_mid(), tok: vec![2], segs: &up, b1: Some((1, true, 0)), b2: None, pay: body_bytes(16, 10), extra: vec![] })
            };
            run_step(&mut h, &mut out, &json!({"op": "ireq", "ep": "sleeper", "req": jpkt(&p), "app": {"some": false}}), &tag);
        }
        run_step(&mut h, &mut out, &json!({"op": "sleep", "ms": ttl * 3 / 10}), &tag);
        let p = mkreq(&ReqSpec { code: 3, typ: 0, mid: next_mid(), tok: vec![2], segs: &up, b1: Some((2, false, 0)), b2: None, pay: vec![7, 7], extra: vec![] });
        run_step(&mut h, &mut out, &json!({"op": "ireq", "ep": "sleeper", "req": jpkt(&p), "app": {"some": true, "v": {"code": 0x44, "pay": [], "opts": []}}}), &json!({"kind": "keepalive-next"}));
    }
    // expiries that are not whole milliseconds, zero included: what is configured is what applies
    for ttl_us in if thorough { vec![0u64, 1, 750, 999, 1500, 20_500] } else { vec![0u64, 750, 20_500] } {
        let mut h = H::new_us(&mut out, 1152, ttl_us, start);
        let tag = json!({"kind": "expiry-us", "ttl_us": ttl_us});
        let body = body_bytes(100, 6);
        let p0 = mkreq(&ReqSpec { code: 1, typ: 0, mid: next_mid(), tok: vec![1], segs: &seg, b1: None, b2: Some((0, false, 0)), pay: vec![], extra: vec![] });
        run_step(&mut h, &mut out, &json!({"op": "ireq", "ep": "sleeper", "req": jpkt(&p0), "app": {"some": true, "v": {"code": 0x45, "pay": jbytes(&body), "opts": []}}}), &tag);
        let u0 = mkreq(&ReqSpec { code: 3, typ: 0, mid: next_mid(), tok: vec![2], segs: &up, b1: Some((0, true, 0)), b2: None, pay: body_bytes(16, 9), extra: vec![] });
        run_step(&mut h, &mut out, &json!({"op": "ireq", "ep": "sleeper", "req": jpkt(&u0), "app": {"some": false}}), &tag);
        run_step(&mut h, &mut out, &json!({"op": "sleep", "ms": ttl_us / 250 + 30}), &tag);
        let p1 = mkreq(&ReqSpec { code: 1, typ: 0, mid: next_mid(), tok: vec![4], segs: &seg, b1: None, b2: Some((1, false, 0)), pay: vec![], extra: vec![] });
        run_step(&mut h, &mut out, &json!({"op": "ireq", "ep": "sleeper", "req": jpkt(&p1), "app": {"some": true, "v": {"code": 0x45, "pay": jbytes(&body_bytes(40, 8)), "opts": []}}}), &json!({"kind": "expiry-us-follow"}));
        run_step(&mut h, &mut out, &json!({"op": "sleep", "ms": ttl_us / 250 + 30}), &tag);
        let u1 = mkreq(&ReqSpec { code: 3, typ: 0, mid: next_mid(), tok: vec![5], segs: &up, b1: Some((1, false, 0)), b2: None, pay: vec![7, 7], extra: vec![] });
        run_step(&mut h, &mut out, &json!({"op": "ireq", "ep": "sleeper", "req": jpkt(&u1), "app": {"some": true, "v": {"code": 0x44, "pay": [], "opts": []}}}), &json!({"kind": "expiry-us-follow"}));
    }
    // expiry under traffic: while the entry sits idle for five times its expiry, other keys keep
    // starting block-wise transfers at intervals shorter than the expiry; the idle entry must still expire
    for ttl in if thorough { vec![40u64, 60, 100] } else { vec![60u64] } {
        let mut h = H::new(&mut out, 1152, ttl, start);
        let tag = json!({"kind": "expiry-traffic", "ttl": ttl});
        let body = body_bytes(100, 6);
        let p0 = mkreq(&ReqSpec { code: 1, typ: 0, mid: next_mid(), tok: vec![1], segs: &seg, b1: None, b2: Some((0, false, 0)), pay: vec![], extra: vec![] });
        run_step(&mut h, &mut out, &json!({"op": "ireq", "ep": "sleeper", "req": jpkt(&p0), "app": {"some": true, "v": {"code": 0x45, "pay": jbytes(&body), "opts": []}}}), &tag);
        let u0 = mkreq(&ReqSpec { code: 3, typ: 0, mid: next_mid(), tok: vec![2], segs: &up, b1: Some((0, true, 0)), b2: None, pay: body_bytes(16, 9), extra: vec![] });
        run_step(&mut h, &mut out, &json!({"op": "ireq", "ep": "sleeper", "req": jpkt(&u0), "app": {"some": false}}), &tag);
        let t_end = Instant::now() + Duration::from_millis(ttl * 5);
        let mut i = 0usize;
        while Instant::now() < t_end {
            i += 1;
            let o = mkreq(&ReqSpec { code: 1, typ: 0, mid: next_mid(), tok: vec![3], segs: &[format!("busy{}", i % 7).into_bytes()], b1: None, b2: Some((0, false, 0)), pay: vec![], extra: vec![] });
            run_step(&mut h, &mut out, &json!({"op": "ireq", "ep": "busy", "req": jpkt(&o), "app": {"some": true, "v": {"code": 0x45, "pay": jbytes(&body_bytes(48, i)), "opts": []}}}), &json!({"kind": "expiry-traffic-other"}));
            run_step(&mut h, &mut out, &json!({"op": "sleep", "ms": ttl / 4}), &tag);
        }
        let p1 = mkreq(&ReqSpec { code: 1, typ: 0, mid: next_mid(), tok: vec![4], segs: &seg, b1: None, b2: Some((1, false, 0)), pay: vec![], extra: vec![] });
        run_step(&mut h, &mut out, &json!({"op": "ireq", "ep": "sleeper", "req": jpkt(&p1), "app": {"some": true, "v": {"code": 0x45, "pay": jbytes(&body_bytes(40, 8)), "opts": []}}}), &json!({"kind": "expiry-traffic-follow"}));
        let u1 = mkreq(&ReqSpec { code: 3, typ: 0, mid: next_mid(), tok: vec![5], segs: &up, b1: Some((1, false, 0)), b2: None, pay: vec![7, 7], extra: vec![] });
        run_step(&mut h, &mut out, &json!({"op": "ireq", "ep": "sleeper", "req": jpkt(&u1), "app": {"some": true, "v": {"code": 0x44, "pay": [], "opts": []}}}), &json!({"kind": "expiry-traffic-follow"}));
    }
    // the expiry elapses between intercept_request and intercept_response of one exchange (a slow
    // application), and a response is pushed through the handler as the first use after expiry
    for ttl in if thorough { vec![30u64, 50] } else { vec![40u64] } {
        let mut h = H::new(&mut out, 1152, ttl, start);
        let tag = json!({"kind": "slow-app", "ttl": ttl});
        // early negotiation leaves a Block2 hint and an upload buffer in the entry
        let p0 = mkreq(&ReqSpec { code: 1, typ: 0, mid: next_mid(), tok: vec![1], segs: &seg, b1: None, b2: Some((2, false, 0)), pay: vec![], extra: vec![] });
        let (o, mut req) = h.ireq(&mut out, "slow", &p0, &tag);
        std::thread::sleep(Duration::from_millis(ttl * 4 + 5));
        out.ev(json!({"op": "sleep", "ms": ttl * 4 + 5}));
        if o["k"] == "ok" && o["handled"] == false {
            if let Some(resp) = req.response.as_mut() {
                resp.message.payload = body_bytes(40, 2);
            }
            let _ = h.iresp(&mut out, "slow", &mut req, &tag);
        }
        // cached transfer, expiry, then a response for the same key without a preceding request
        let p1 = mkreq(&ReqSpec { code: 1, typ: 0, mid: next_mid(), tok: vec![2], segs: &up, b1: None, b2: Some((0, false, 0)), pay: vec![], extra: vec![] });
        run_step(&mut h, &mut out, &json!({"op": "ireq", "ep": "slow", "req": jpkt(&p1), "app": {"some": true, "v": {"code": 0x45, "pay": jbytes(&body_bytes(100, 3)), "opts": []}}}), &tag);
        let p2 = mkreq(&ReqSpec { code: 1, typ: 0, mid: next_mid(), tok: vec![3], segs: &up, b1: None, b2: Some((1, false, 0)), pay: vec![], extra: vec![] });
        run_step(&mut h, &mut out, &json!({"op": "ireq", "ep": "slow", "req": jpkt(&p2), "app": {"some": false}}), &tag);
        run_step(&mut h, &mut out, &json!({"op": "sleep", "ms": ttl * 4 + 5}), &tag);
        let p3 = mkreq(&ReqSpec { code: 1, typ: 0, mid: next_mid(), tok: vec![4], segs: &up, b1: None, b2: None, pay: vec![], extra: vec![] });
        let mut pushed = CoapRequest::from_packet(p3, Ep::new("slow"));
        if let Some(resp) = pushed.response.as_mut() {
            resp.message.payload = body_bytes(40, 5);
        }
        let _ = h.iresp(&mut out, "slow", &mut pushed, &json!({"kind": "pushed-response"}));
    }
    // reclamation: abandoned transfers on distinct endpoints; idle; one unrelated call; nothing left alive
    // (the "next use" being: a request on an unrelated key, a response pushed through on an unrelated key,
    // a request on one of the abandoned keys, a request on a key that was kept busy throughout the idle time)
    // ... a request the handler refuses: a body beyond the budget without Block1 (6), options beyond the budget (7)
    for (n, variant) in if thorough { vec![(1usize, 0u8), (5, 1), (20, 2), (50, 3), (7, 0), (3, 1), (2, 2), (4, 3), (9, 4), (11, 5), (6, 6), (13, 7), (2, 6)] } else { vec![(1usize, 0u8), (12, 1), (3, 2), (5, 3), (4, 4), (6, 5), (5, 6), (3, 7)] } {
        let ttl = 30u64;
        let prefix = format!("abandoned{}v{}-", n, variant);
        let mut h = H::new(&mut out, 1152, ttl, start);
        for i in 0..n {
            let epn = format!("{}{}", prefix, i);
            let u0 = mkreq(&ReqSpec { code: 3, typ: 0, mid: next_mid(), tok: vec![2], segs: &up, b1: Some((0, true, 2)), b2: None, pay: body_bytes(64, i), extra: vec![] });
            let mut req = CoapRequest::from_packet(u0, Ep::new(&epn));
            let _ = guarded(|| h.h.intercept_request(&mut req));
            let p0 = mkreq(&ReqSpec { code: 1, typ: 0, mid: next_mid(), tok: vec![1], segs: &seg, b1: None, b2: Some((0, false, 0)), pay: vec![], extra: vec![] });
            let mut req = CoapRequest::from_packet(p0, Ep::new(&epn));
            let _ = guarded(|| h.h.intercept_request(&mut req));
            if let Some(resp) = req.response.as_mut() {
                resp.message.payload = body_bytes(500, i);
            }
            let _ = guarded(|| h.h.intercept_response(&mut req));
        }
        let held = live_with_prefix(&prefix);
        let other = mkreq(&ReqSpec { code: 1, typ: 0, mid: next_mid(), tok: vec![3], segs: &[b"unrelated".to_vec()], b1: None, b2: None, pay: vec![], extra: vec![] });
        if variant == 3 {
            // a key that stays busy: used every third of the expiry while the others sit idle
            for _ in 0..13 {
                std::thread::sleep(Duration::from_millis(ttl / 3));
                let mut rq = CoapRequest::from_packet(other.clone(), Ep::new("busy-key"));
                let _ = guarded(|| h.h.intercept_request(&mut rq));
            }
        } else {
            std::thread::sleep(Duration::from_millis(ttl * 4 + 5));
        }
        let before = live_with_prefix(&prefix);
        match variant {
            1 => {
                let mut pushed = CoapRequest::from_packet(other.clone(), Ep::new("unrelated"));
                if let Some(resp) = pushed.response.as_mut() {
                    resp.message.payload = body_bytes(10, 1);
                }
                let _ = guarded(|| h.h.intercept_response(&mut pushed));
            }
            4 => {
                // a response that already carries a Block2 option of its own (the application fragments by hand)
                let mut pushed = CoapRequest::from_packet(other.clone(), Ep::new("unrelated"));
                if let Some(resp) = pushed.response.as_mut() {
                    resp.message.payload = body_bytes(16, 1);
                    resp.message.add_option(CoapOption::Block2, BlockValue { num: 0, more: true, size_exponent: 0 }.into());
                }
                let _ = guarded(|| h.h.intercept_response(&mut pushed));
            }
            5 => {
                // a message that gets no response at all (an ACK) passed through both entry points
                let mut ackp = other.clone();
                ackp.header.set_type(coap_lite::MessageType::Acknowledgement);
                let mut rq = CoapRequest::from_packet(ackp, Ep::new("unrelated"));
                rq.response = None;
                let _ = guarded(|| h.h.intercept_response(&mut rq));
            }
            2 => {
                let again = mkreq(&ReqSpec { code: 1, typ: 0, mid: next_mid(), tok: vec![1], segs: &seg, b1: None, b2: None, pay: vec![], extra: vec![] });
                let mut rq = CoapRequest::from_packet(again, Ep::new("scratch-trigger"));
                let _ = guarded(|| h.h.intercept_request(&mut rq));
            }
            3 => {
                let mut rq = CoapRequest::from_packet(other.clone(), Ep::new("busy-key"));
                let _ = guarded(|| h.h.intercept_request(&mut rq));
            }
            6 | 7 => {
                let big = if variant == 6 {
                    mkreq(&ReqSpec { code: 3, typ: 0, mid: next_mid(), tok: vec![3], segs: &[b"unrelated".to_vec()], b1: None, b2: None, pay: vec![0x33; 1400], extra: vec![] })
                } else {
                    mkreq(&ReqSpec { code: 1, typ: 0, mid: next_mid(), tok: vec![3], segs: &[b"unrelated".to_vec()], b1: None, b2: None, pay: vec![], extra: vec![(2048, vec![0x44; 700]), (2049, vec![0x44; 700])] })
                };
                let _ = h.ireq(&mut out, "unrelated", &big, &json!({"kind": "reclaim-trigger-refused"}));
            }
            _ => {
                let _ = h.ireq(&mut out, "unrelated", &other, &json!({"kind": "reclaim-trigger"}));
            }
        }
        let after = live_with_prefix(&prefix);
        out.ev(json!({"op": "reclaim", "abandoned": n, "held_while_fresh": held, "live_before_use": before, "live_after_use": after, "ttl": ttl, "next_use": variant}));
    }
    // retention under many keys: with an expiry far longer than the run, thousands of distinct other keys pass
    // through the handler while abandoned transfers sit in the cache; none of them may be dropped
    for crowd in if thorough { vec![1500usize, 5000, 20000] } else { vec![3000usize] } {
        let prefix = format!("retained{}-", crowd);
        let mut h = H::new(&mut out, 1152, 600_000, start);
        for i in 0..3usize {
            let epn = format!("{}{}", prefix, i);
            let u0 = mkreq(&ReqSpec { code: 3, typ: 0, mid: next_mid(), tok: vec![2], segs: &up, b1: Some((0, true, 2)), b2: None, pay: body_bytes(64, i), extra: vec![] });
            let mut req = CoapRequest::from_packet(u0, Ep::new(&epn));
            let _ = guarded(|| h.h.intercept_request(&mut req));
            let p0 = mkreq(&ReqSpec { code: 1, typ: 0, mid: next_mid(), tok: vec![1], segs: &seg, b1: None, b2: Some((0, false, 0)), pay: vec![], extra: vec![] });
            let mut req = CoapRequest::from_packet(p0, Ep::new(&epn));
            let _ = guarded(|| h.h.intercept_request(&mut req));
            if let Some(resp) = req.response.as_mut() {
                resp.message.payload = body_bytes(500, i);
            }
            let _ = guarded(|| h.h.intercept_response(&mut req));
        }
        let before = live_with_prefix(&prefix);
        for i in 0..crowd {
            let o = mkreq(&ReqSpec { code: 1, typ: 0, mid: next_mid(), tok: vec![3], segs: &[format!("crowd{}", i % 11).into_bytes()], b1: None, b2: None, pay: vec![], extra: vec![] });
            let mut rq = CoapRequest::from_packet(o, Ep::new(&format!("crowd-{}-{}", crowd, i)));
            let _ = guarded(|| h.h.intercept_request(&mut rq));
            if i % 3 == 0 {
                if let Some(resp) = rq.response.as_mut() {
                    resp.message.payload = body_bytes(10, i);
                }
                let _ = guarded(|| h.h.intercept_response(&mut rq));
            }
        }
        let after = live_with_prefix(&prefix);
        out.ev(json!({"op": "retain", "crowd": crowd, "live_before_crowd": before, "live_after_crowd": after, "ttl": 600_000}));
    }
    let n = out.finish();
    println!("{}", json!({"events": n}));
}

// ---- mixed sessions: several actors, realistic but untidy protocol use ------------------------------
/// Each actor runs Block2 downloads / Block1 uploads against its key and, now and then, repeats a
/// request, abandons and restarts, changes its token length or adds an option (overhead grows),
/// skips a block, has a response pushed through the handler, or idles past a short expiry.
/// Every call is judged on its own by Trace_BlockHandler, so any history is fair game.
pub fn rec_mixed(args: &Args) {
    let seed = args.u("seed", 1);
    let thorough = args.thorough();
    let mut r = Rng::new(seed ^ 0x313D);
    let mut out = Out::create(args.s("out"));
    let start = Instant::now();
    let episodes = if thorough { 2500 } else { 220 };
    let mut slept_ms = 0u64;
    for e in 0..episodes {
        let m = match r.below(6) { 0 => 64, 1 => 100, 2 => 300, 3 => 1152, 4 => 1280, _ => r.range(40, 1280) as usize };
        let short_ttl = r.chance(1, 12) && slept_ms < (if thorough { 40_000 } else { 4_000 });
        let ttl = if short_ttl { 40 } else { 3_600_000 };
        let mut h = H::new(&mut out, m, ttl, start);
        struct Actor {
            ep: String,
            code: u8,
            segs: Vec<Vec<u8>>,
            upload: bool,
            body: Vec<u8>,
            szx: u8,
            off: usize,
            b2: Option<(u16, u8)>,
            toklen: usize,
            extra: usize,
            last: Option<Packet>,
            gen: usize,
        }
        let keys: [(&str, u8, &[&str]); 5] = [("e1", 1, &["a", "b"]), ("e1", 1, &["a/b"]), ("e2", 1, &["a", "b"]), ("e1", 3, &["a", "b"]), ("e1", 2, &["a"])];
        let mut actors: Vec<Actor> = (0..r.range(2, 4) as usize).map(|i| {
            let (ep, code, segs) = keys[(i + e) % keys.len()];
            let upload = code != 1;
            Actor { ep: ep.to_string(), code, segs: segs.iter().map(|s| s.as_bytes().to_vec()).collect(), upload, body: vec![], szx: 0, off: 0, b2: None, toklen: 2, extra: 0, last: None, gen: 0 }
        }).collect();
        for a in actors.iter_mut() {
            a.szx = r.below(4) as u8;
            a.body = body_bytes(r.below(400) as usize, a.gen + e);
            a.b2 = if r.chance(1, 2) { Some((0, a.szx)) } else { None };
        }
        let mut mid: u16 = r.next() as u16;
        // downloads whose application answers later: other actors' requests (sometimes with the very
        // same message id) are handled in between
        let mut deferred: Vec<(usize, CoapRequest<Ep>)> = vec![];
        let small_mids = r.chance(1, 3);
        for _ in 0..r.range(8, 40) {
            if !deferred.is_empty() && r.chance(1, 2) {
                let ix = r.below(deferred.len() as u64) as usize;
                let (ai, mut req) = deferred.remove(ix);
                if let Some(resp) = req.response.as_mut() {
                    resp.message.header.code = 0x45.into();
                    resp.message.payload = actors[ai].body.clone();
                }
                let ep = actors[ai].ep.clone();
                let _ = h.iresp(&mut out, &ep, &mut req, &json!({"kind": "mixed-deferred"}));
                continue;
            }
            let n = actors.len();
            let ai = r.below(n as u64) as usize;
            let a = &mut actors[ai];
            mid = if small_mids { r.range(1, 3) as u16 } else { mid.wrapping_add(1) };
            let tag = json!({"kind": "mixed"});
            let action = r.below(100);
            if action < 8 {
                // repeat the previous request with a new message id
                if let Some(mut p) = a.last.clone() {
                    p.header.message_id = mid;
                    let (o, mut req) = h.ireq(&mut out, &a.ep, &p, &tag);
                    if o["k"] == "ok" && o["handled"] == false {
                        if let Some(resp) = req.response.as_mut() {
                            resp.message.header.code = if a.upload { 0x44 } else { 0x45 }.into();
                            if !a.upload { resp.message.payload = a.body.clone(); }
                        }
                        let _ = h.iresp(&mut out, &a.ep, &mut req, &tag);
                    }
                }
                continue;
            }
            if action < 14 {
                // abandon and restart with another body (and possibly the other direction)
                a.gen += 1;
                a.body = body_bytes(r.below(400) as usize, a.gen + 17 * e);
                a.off = 0;
                a.szx = r.below(4) as u8;
                a.b2 = if r.chance(1, 3) { Some((0, a.szx)) } else { None };
                if r.chance(1, 4) && a.code != 1 { a.upload = !a.upload; }
                continue;
            }
            if action < 19 {
                a.toklen = r.below(9) as usize;
                a.extra = *r.pick(&[0usize, 0, 13, 24, 60]);
                continue;
            }
            if action < 21 && short_ttl {
                std::thread::sleep(Duration::from_millis(ttl * 4 + 5));
                slept_ms += ttl * 4 + 5;
                out.ev(json!({"op": "sleep", "ms": ttl * 4 + 5}));
                continue;
            }
            if action < 23 {
                // a response pushed through the handler without a preceding request
                let p = mkreq(&ReqSpec { code: a.code, typ: 0, mid, tok: r.bytes(a.toklen), segs: &a.segs, b1: None, b2: None, pay: vec![], extra: vec![] });
                let mut pushed = CoapRequest::from_packet(p, Ep::new(&a.ep));
                if let Some(resp) = pushed.response.as_mut() {
                    resp.message.payload = body_bytes(r.below(120) as usize, 3);
                }
                let _ = h.iresp(&mut out, &a.ep, &mut pushed, &json!({"kind": "mixed-push"}));
                continue;
            }
            if action < 31 && action >= 26 {
                // a request on this actor's key that the handler refuses or cannot answer, while the key may
                // hold live state: nothing but what the specification says may happen to that state
                let sz = 16usize << a.szx;
                let cur = (a.off / sz).min(60000) as u16;
                let p = match r.below(5) {
                    0 => mkreq(&ReqSpec { code: a.code, typ: 0, mid, tok: r.bytes(a.toklen), segs: &a.segs, b1: Some((cur + (16384 / sz) as u16 + 3, true, a.szx)), b2: None, pay: body_bytes(sz.min(40), 5), extra: vec![] }),
                    1 => mkreq(&ReqSpec { code: a.code, typ: 2 + r.below(2), mid, tok: r.bytes(a.toklen), segs: &a.segs, b1: Some((cur, true, a.szx)), b2: None, pay: body_bytes(sz, 6), extra: vec![] }),
                    2 => { let mut q = mkreq(&ReqSpec { code: a.code, typ: 0, mid, tok: r.bytes(a.toklen), segs: &a.segs, b1: None, b2: None, pay: body_bytes(7, 7), extra: vec![] }); q.add_option(CoapOption::Block1, vec![1, 2, 3, 4]); q }
                    3 => mkreq(&ReqSpec { code: a.code, typ: 2 + r.below(2), mid, tok: r.bytes(a.toklen), segs: &a.segs, b1: None, b2: Some((cur, false, a.szx)), pay: vec![], extra: vec![] }),
                    _ => { let mut q = mkreq(&ReqSpec { code: a.code, typ: 0, mid, tok: r.bytes(a.toklen), segs: &a.segs, b1: None, b2: None, pay: vec![], extra: vec![] }); q.add_option(CoapOption::Block2, vec![9, 9, 9, 9]); q }
                };
                let (o, mut req) = h.ireq(&mut out, &a.ep, &p, &json!({"kind": "mixed-refused"}));
                if o["k"] == "ok" && o["handled"] == false && req.response.is_some() {
                    if let Some(resp) = req.response.as_mut() {
                        resp.message.header.code = 0x45.into();
                        resp.message.payload = a.body.clone();
                    }
                    let _ = h.iresp(&mut out, &a.ep, &mut req, &json!({"kind": "mixed-refused"}));
                    a.b2 = None;
                }
                continue;
            }
            let skip = action < 26;
            let extra = if a.extra > 0 { vec![(15u16, vec![b'q'; a.extra])] } else { vec![] };
            if a.upload {
                let sz = 16usize << a.szx;
                if skip { a.off += sz; }
                let lo = a.off.min(a.body.len());
                let hi = (lo + sz).min(a.body.len());
                let more = hi < a.body.len();
                let p = mkreq(&ReqSpec { code: a.code, typ: 0, mid, tok: r.bytes(a.toklen), segs: &a.segs, b1: Some(((a.off / sz).min(65535) as u16, more, a.szx)), b2: None, pay: a.body[lo..hi].to_vec(), extra });
                a.last = Some(p.clone());
                let (o, mut req) = h.ireq(&mut out, &a.ep, &p, &tag);
                if o["k"] == "ok" && o["handled"] == false {
                    if let Some(resp) = req.response.as_mut() {
                        resp.message.header.code = 0x44.into();
                        if r.chance(1, 5) { resp.message.payload = body_bytes(r.below(200) as usize, 9); }
                    }
                    let _ = h.iresp(&mut out, &a.ep, &mut req, &tag);
                }
                if more { a.off = hi; } else { a.off = 0; a.gen += 1; a.body = body_bytes(r.below(400) as usize, a.gen + 31 * e); }
                // follow a smaller acknowledged size when aligned
                if let Some(ack) = req.response.as_ref().and_then(over_the_wire).and_then(|p| block_of(&p, CoapOption::Block1)) {
                    if ack.size_exponent < a.szx && a.off % (16usize << ack.size_exponent) == 0 { a.szx = ack.size_exponent; }
                }
            } else {
                let mut b2 = a.b2;
                if skip { b2 = b2.map(|(n, s)| (n + 2, s)); }
                let p = mkreq(&ReqSpec { code: a.code, typ: r.below(2), mid, tok: r.bytes(a.toklen), segs: &a.segs, b1: None, b2: b2.map(|(n, s)| (n, false, s)), pay: vec![], extra });
                a.last = Some(p.clone());
                let (o, mut req) = h.ireq(&mut out, &a.ep, &p, &tag);
                if o["k"] == "ok" && o["handled"] == false && req.response.is_some() && r.chance(1, 4) && deferred.len() < 3 {
                    // the application will answer later; this actor starts over afterwards
                    deferred.push((ai, req));
                    a.b2 = None;
                    continue;
                }
                if o["k"] == "ok" && o["handled"] == false {
                    if let Some(resp) = req.response.as_mut() {
                        resp.message.header.code = 0x45.into();
                        resp.message.payload = a.body.clone();
                        if a.gen % 2 == 1 { resp.message.add_option(CoapOption::ETag, vec![a.gen as u8]); }
                        // freshness information is the application's business: Max-Age 0 / 1 s on the reply says
                        // nothing about how long the handler keeps its copy (that is the configured expiry)
                        if a.gen % 3 == 1 { resp.message.add_option(CoapOption::MaxAge, if a.gen % 2 == 0 { vec![] } else { vec![1] }); }
                    }
                    let _ = h.iresp(&mut out, &a.ep, &mut req, &tag);
                }
                match req.response.as_ref().and_then(over_the_wire).and_then(|p| block_of(&p, CoapOption::Block2)) {
                    Some(b) if b.more => a.b2 = Some((b.num + 1, if r.chance(1, 10) && b.size_exponent > 0 { 0 } else { b.size_exponent })),
                    _ => {
                        a.gen += 1;
                        a.body = body_bytes(r.below(400) as usize, a.gen + 13 * e);
                        a.b2 = if r.chance(1, 2) { Some((0, r.below(4) as u8)) } else { None };
                    }
                }
                if let Some((n, s)) = a.b2 {
                    // a reduced size restates the offset in the new unit
                    if s == 0 { if let Some(b) = req.response.as_ref().and_then(over_the_wire).and_then(|p| block_of(&p, CoapOption::Block2)) { if b.more && b.size_exponent > 0 { a.b2 = Some(((((b.num as usize + 1) * b.size()) / 16).min(65535) as u16, 0)); let _ = n; } } }
                }
            }
        }
    }
    let n = out.finish();
    println!("{}", json!({"events": n, "episodes": episodes, "slept_ms": slept_ms}));
}
