---------------------------- MODULE MC_Negotiate ----------------------------
(***************************************************************************)
(* C10, arithmetic lemma by exhaustion: for every budget M in 0..1280,     *)
(* every non-payload overhead of a slab, every client preference (none,    *)
(* szx 0..7) and a set of payload lengths,                                  *)
(*   M >= overhead + 28  =>  the negotiated size is one the property       *)
(*                           allows (AllowedSzx), and                       *)
(*   below that threshold negotiation is still total: it yields an error,  *)
(*   "no block needed" or a block value - never an undefined value.        *)
(* Environment: NPS ("slab" | "wide").                                      *)
(***************************************************************************)
EXTENDS BlockHandler, TLC, IOUtils

NPs == IF IOEnv.NPS = "slab" THEN { 4, 5, 12, 13, 21, 100, 268, 269, 1252 }
       ELSE { 4, 5, 12, 13, 21, 100, 268, 269, 1252 } \cup { 4 + 7 * i : i \in 0 .. 185 }
Clients == { None } \cup { Some([num |-> n, more |-> FALSE, szx |-> s]) : s \in 0 .. 7, n \in { 0, 3 } }
PayLens == { 0, 1, 15, 16, 17, 100, 1023, 1024, 1025, 5000 }

VARIABLES M, np, client
vars == << M, np, client >>
Init == M = 0 /\ np \in NPs /\ client \in Clients
Next == M < 1280 /\ M' = M + 1 /\ UNCHANGED << np, client >>
Spec == Init /\ [][Next]_vars

\* the message that carries a block of size exponent s: overhead, a block option (at most 5
\* bytes after the existing ones; a request already carries its own), the marker, the block
Carrier(s) == np + 6 + SizeOf(s)
ClientSzx == IF client.some THEN Some(client.v.szx) ELSE None

Total == \A pl \in PayLens : Negotiate(client, np, pl, M).k \in { "err", "none", "bv" }

Allowed == M >= np + 28 =>
  \A pl \in PayLens :
    LET n == Negotiate(client, np, pl, M) IN
    /\ n.k # "err" \/ (client.some /\ (client.v.num * SizeOf(client.v.szx)) \div 16 > MaxNum)
    /\ (n.k = "bv" => /\ n.bv.szx \in AllowedSzx(M, ClientSzx, Carrier)
                      /\ n.bv.szx <= 6
                      \* the block number restates the requested offset in the chosen size.  Pinned only
                      \* for transfers that start at block 0 (the quantifier of C08); see Observation below.
                      /\ ((client.some /\ client.v.num = 0) => n.bv.num = 0))
    \* a response left unfragmented fits the budget
    /\ (n.k = "none" => np + 1 + pl <= M /\ ~client.some)
    \* a client asking gets a block-wise answer; a body that does not fit is fragmented
    /\ (client.some => n.k = "bv")
    /\ (np + 1 + pl > M => n.k = "bv")

\* Observation (outside the listed properties, recorded in DESIGN.md): when a client names a block
\* number > 0 with a size larger than the room and the room is not a power of two, the code-shaped
\* Negotiate divides the offset by the unrounded room (e.g. M = 33, overhead 4, Block2 3/512:
\* room 17, answer block 90 of size 16 = offset 1440 instead of 1536).  TLC confirms the witness:
OffsetWitness == (M = 33 /\ np = 4 /\ client = Some([num |-> 3, more |-> FALSE, szx |-> 5])) =>
                   LET n == Negotiate(client, np, 5000, M) IN n.k = "bv" /\ n.bv.num * SizeOf(n.bv.szx) = 1440

\* below the threshold: an error or a block, never a panic (division by zero is a TLC error)
BelowThreshold == M < np + BlockOptionsMaxLength => \A pl \in PayLens : Negotiate(client, np, pl, M).k = "err"
=============================================================================
