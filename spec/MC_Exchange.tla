---------------------------- MODULE MC_Exchange ----------------------------
(***************************************************************************)
(* C07 on the specification: two clients, each with up to two outstanding  *)
(* requests (all types, versions 0/1/3, token lengths 0/1/8, fresh message *)
(* ids and tokens); the server prepares a reply for any outstanding        *)
(* request, optionally turning a handling error into it.  Every reply      *)
(* matches exactly the request that caused it.                             *)
(***************************************************************************)
EXTENDS Views, TLC, IOUtils, Json, CSV

EmitOn == "OUT" \in DOMAIN IOEnv
Clients == { "c1", "c2" }
Errors == { [code |-> None, msg |-> << >>],
            [code |-> Some(132), msg |-> << 78, 111 >>],
            [code |-> Some(160), msg |-> << >>] }
TokVal(n, salt) == [i \in 1 .. n |-> (salt * 16 + i) % 256]

VARIABLES sent, out, replies, last
vars == << sent, out, replies, last >>
\* sent[c] = number of requests client c has sent; out = outstanding requests; replies = delivered
Init == sent = [c \in Clients |-> 0] /\ out = {} /\ replies = {} /\ last = [k |-> "none"]

Send(c) == /\ sent[c] < (IF c = "c1" THEN 2 ELSE 1)
           \* sizes: 4 types x 3 token lengths (x 3 versions for c1's first request) per send; the
           \* delivered replies are not accumulated (only the last one is kept), so the state is
           \* (sent, out, last): about (1 + 36 + 36 x 12) x (1 + 12 + 144) x 6 serve outcomes
           /\ \E typ \in 0 .. 3, ver \in (IF c = "c1" /\ sent[c] = 0 THEN { 0, 1, 3 } ELSE { 1 }), tl \in (IF c = "c1" THEN { 0, 8 } ELSE { 1 }), code \in { 1 } :
                LET n == sent[c] + 1
                    salt == IF c = "c1" THEN n ELSE n + 7
                    req == [ver |-> ver, typ |-> typ, code |-> code, mid |-> salt * 257,
                            tok |-> TokVal(tl, salt), opts |-> << << 11, << << 97 >> >> >> >>, pay |-> << 1, 2 >>]
                IN /\ out' = out \cup { [client |-> c, n |-> n, req |-> req] }
                   /\ sent' = [sent EXCEPT ![c] = n]
                   /\ replies' = {} /\ last' = [k |-> "send"]

Serve == \E o \in out, e \in Errors \cup { [code |-> None, msg |-> << 0 >>] } :
           LET r == NewResponse(o.req)
               useErr == e.msg # << 0 >>
               a == IF useErr THEN ApplyFromError(r, e) ELSE [ok |-> TRUE, resp |-> r]
           IN /\ out' = out \ { o }
              /\ replies' = IF a.resp.some THEN { [client |-> o.client, cause |-> o, msg |-> a.resp.v] } ELSE {}
              /\ last' = [k |-> "serve", req |-> o.req, useErr |-> useErr, err |-> e, ret |-> a.ok, resp |-> a.resp,
                          bytes |-> IF a.resp.some THEN Encode(a.resp.v) ELSE << >>]
              /\ UNCHANGED sent
Next == (\E c \in Clients : Send(c)) \/ Serve
Spec == Init /\ [][Next]_vars

\* every reply is correlated with the request that caused it
ReplyMatches == \A r \in replies :
  /\ r.msg.ver = 1 /\ r.msg.mid = r.cause.req.mid /\ r.msg.tok = r.cause.req.tok
  /\ r.msg.typ = (IF r.cause.req.typ = 0 THEN 2 ELSE 1)
  /\ r.cause.req.typ \in { 0, 1 }
\* and with no other request of the same client (fresh ids and tokens)
ReplyUnique == \A r \in replies : \A o \in out :
  (o.client = r.client /\ o # r.cause) => ~(o.req.mid = r.msg.mid /\ o.req.tok = r.msg.tok)
\* the request body is never echoed
NoEcho == \A r \in replies :
  /\ (r.msg.code = 69 => r.msg.opts = << >> /\ r.msg.pay = << >>)
  /\ \A i \in 1 .. Len(r.msg.opts) : r.msg.opts[i][1] = OPT_CONTENT_FORMAT
\* a prepared reply exists iff the request is CON or NON; applying an error fails iff no reply or no code
Prepared == last.k = "serve" =>
  /\ (last.resp.some <=> last.req.typ \in { 0, 1 })
  /\ (last.useErr => (last.ret <=> (last.resp.some /\ last.err.code.some)))
  /\ ((last.useErr /\ last.ret) => ErrorTouchesOnly(NewResponse(last.req).v, last.resp.v, last.err))

Emit == (EmitOn /\ last.k = "serve") => CSVWrite("%1$s", << ToJson(last) >>, IOEnv.OUT)
=============================================================================
