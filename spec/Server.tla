------------------------------- MODULE Server -------------------------------
(***************************************************************************)
(* Composition (growth beyond the listed properties): one server step over *)
(* encoded datagrams,                                                      *)
(*   datagram -> Wire!Decode -> request + prepared reply (Views) ->        *)
(*   BlockHandler!InterceptRequest -> application -> InterceptResponse ->  *)
(*   (errors through ApplyFromError) -> Wire!Encode -> datagram,           *)
(* with a small fixed application, and reactive clients that reassemble    *)
(* bodies from the reply datagrams they parse.  C07 / C08 / C09 / C12 are  *)
(* restated end to end on the wire.                                        *)
(***************************************************************************)
EXTENDS BlockHandler

SBody(n, salt) == [i \in 1 .. n |-> (i * 7 + salt * 13) % 256]
BIG == << 98, 105, 103 >>          \* "big"
SMALL == << 115, 109 >>            \* "sm"
EMPTYP == << 101 >>                \* "e"
STORE == << 115, 116 >>            \* "st"
BigBody == SBody(200, 3)

Sum(pay) == LET RECURSIVE S(_)
                S(p) == IF p = << >> THEN 0 ELSE (Head(p) + S(Tail(p))) % 256
            IN S(pay)

\* the application: what it puts into the prepared reply for a request (with reassembled payload)
AppReply(req, pay, resp) ==
  LET segs == ValsOf(req.opts, OPT_URI_PATH) IN
  IF req.code = 1 /\ segs = << BIG >>
  THEN [resp EXCEPT !.code = 69, !.pay = BigBody, !.opts = AddOptVal(@, 4, << 1, 2 >>)]
  ELSE IF req.code = 1 /\ segs = << SMALL >> THEN [resp EXCEPT !.code = 69, !.pay = << 111, 107 >>]
  ELSE IF req.code = 1 /\ segs = << EMPTYP >> THEN [resp EXCEPT !.code = 69, !.pay = << >>]
  ELSE IF req.code = 3 /\ segs = << STORE >>
  THEN [resp EXCEPT !.code = 68, !.pay = << Len(pay) \div 256, Len(pay) % 256, Sum(pay) >>]
  ELSE [resp EXCEPT !.code = 132]

ErrText == << 69 >>                 \* the server renders every handling error with the text "E"

\* cache: key -> entry (no expiry in this composition)
EntryAt(cache, k) == IF k \in DOMAIN cache THEN cache[k] ELSE EmptyEntry
Put(cache, k, e) == [q \in DOMAIN cache \cup { k } |-> IF q = k THEN e ELSE cache[q]]

\* the reply message of one server step (None = nothing is sent) and the cache afterwards
ServeMsg(cache, ep, dgram, M) ==
  LET d == Decode(dgram) IN
  IF d.verdict = "must_reject" THEN [cache |-> cache, reply |-> None]
  ELSE
  LET req == d.msg
      k == KeyOf(req, ep)
      x == InterceptRequest(EntryAt(cache, k), req, M) IN
  IF x.out.k = "err"
  THEN [cache |-> Put(cache, k, x.st),
        reply |-> LET a == ApplyFromError(x.resp, [code |-> x.out.code, msg |-> ErrText]) IN IF a.ok THEN a.resp ELSE None]
  ELSE IF x.out.handled \/ ~x.resp.some
  THEN [cache |-> Put(cache, k, x.st), reply |-> x.resp]
  ELSE LET a == AppReply(req, x.reqpay, x.resp.v)
           y == InterceptResponse(x.st, Some(a), M) IN
       IF y.out.k = "err"
       THEN [cache |-> Put(cache, k, y.st),
             reply |-> LET z == ApplyFromError(y.resp, [code |-> y.out.code, msg |-> ErrText]) IN IF z.ok THEN z.resp ELSE None]
       ELSE [cache |-> Put(cache, k, y.st), reply |-> y.resp]

MaxSize == 1280
Serve(cache, ep, dgram, M) ==
  LET s == ServeMsg(cache, ep, dgram, M) IN
  [cache |-> s.cache,
   out |-> IF s.reply.some /\ ToBytes(s.reply.v, Some(MaxSize)).k = "ok" THEN Some(Encode(s.reply.v)) ELSE None]

(* ---- end-to-end predicates on one exchange (what the listed properties say, on the wire) ---- *)
\* C07/C12: a reply datagram is well formed and correlated with the request datagram
ReplyCorrelated(dgram, out) ==
  out.some =>
    LET q == Decode(dgram)
        r == Decode(out.v) IN
    /\ r.verdict = "must_accept"
    /\ r.msg.mid = q.msg.mid /\ r.msg.tok = q.msg.tok
    /\ q.msg.typ \in { 0, 1 } /\ r.msg.typ = (IF q.msg.typ = 0 THEN 2 ELSE 1)
\* nothing is sent for what cannot be parsed or for ACK/RST typed messages
SilentWhenDue(dgram, out) ==
  LET q == Decode(dgram) IN
  (q.verdict = "must_reject" \/ (q.verdict # "must_reject" /\ q.msg.typ \in { 2, 3 })) => ~out.some
=============================================================================
