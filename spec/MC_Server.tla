------------------------------ MODULE MC_Server ------------------------------
(***************************************************************************)
(* The composed server against reactive clients over datagrams: two        *)
(* download clients (one negotiating early), one upload client and a       *)
(* sender of malformed / unanswerable datagrams, all interleavings.        *)
(* End to end: every client reassembles exactly the body, the upload's     *)
(* reply reflects the complete body, every reply datagram is correlated.   *)
(* Completed schedules are emitted as datagram scripts for the real loop.  *)
(* Environment: OUT (optional).                                            *)
(***************************************************************************)
EXTENDS Server, TLC, IOUtils, Json, CSV

EmitOn == "OUT" \in DOMAIN IOEnv
Budgets == { 64, 1152 }
UpBody == SBody(40, 5)

MkDgram(typ, code, mid, tok, seg, b1, b2, pay) ==
  LET o1 == << << OPT_URI_PATH, << seg >> >> >>
      o2 == IF b2.some THEN Append(o1, << OPT_BLOCK2, << BvEnc(b2.v) >> >>) ELSE o1
      o3 == IF b1.some THEN Append(o2, << OPT_BLOCK1, << BvEnc(b1.v) >> >>) ELSE o2
  IN Encode([ver |-> 1, typ |-> typ, code |-> code, mid |-> mid, tok |-> tok, opts |-> o3, pay |-> pay])

Junk == << << 64, 1, 0 >>,                                   \* too short
           << 73, 1, 0, 9, 1, 2, 3, 4, 5, 6, 7, 8, 9 >>,     \* token length 9
           MkDgram(2, 0, 77, << >>, BIG, None, None, << >>),  \* an ACK: nothing to answer
           << 64, 1, 0, 5, 240 >> >>                          \* reserved option nibble

\* clients: 1 = download /big with early negotiation szx 0 (CON), 2 = download /big, no preference (NON),
\* 3 = upload to /st in 16-byte blocks, 4 = junk
VARIABLES M, cache, cl, h, viol
vars == << M, cache, cl, h, viol >>

InitClient(i) == [pc |-> "go", asm |-> << >>, b2 |-> IF i = 1 THEN Some([num |-> 0, more |-> FALSE, szx |-> 0]) ELSE None,
                  n |-> 0, reply |-> << >>]
Init == /\ M \in Budgets /\ cache = << >> /\ h = << >> /\ viol = << >>
        /\ cl = [i \in 1 .. 4 |-> InitClient(i)]

Ep(i) == << "c1", "c2", "c3", "c4" >>[i]
Check(c, what) == IF c THEN << >> ELSE << what >>

Request(i) ==
  LET c == cl[i] IN
  IF i \in { 1, 2 } THEN MkDgram(IF i = 1 THEN 0 ELSE 1, 1, i * 1000 + c.n, << i, c.n >>, BIG, None, c.b2, << >>)
  ELSE IF i = 3 THEN LET more == (c.n + 1) * 16 < Len(UpBody) IN
                     MkDgram(0, 3, 3000 + c.n, << 3 >>, STORE, Some([num |-> c.n, more |-> more, szx |-> 0]), None,
                             Chunk(UpBody, c.n, 16))
  ELSE Junk[c.n + 1]

Send(i) ==
  /\ cl[i].pc = "go"
  /\ LET dg == Request(i)
         x == Serve(cache, Ep(i), dg, M)
         c == cl[i]
         r == IF x.out.some THEN Decode(x.out.v) ELSE Reject
         fb2 == IF x.out.some THEN FirstBlock(r.msg, OPT_BLOCK2) ELSE None IN
     /\ cache' = x.cache /\ h' = Append(h, [ep |-> Ep(i), dg |-> dg]) /\ UNCHANGED M
     /\ viol' = viol \o Check(ReplyCorrelated(dg, x.out) /\ SilentWhenDue(dg, x.out), "reply not correlated / not silent")
                     \o (IF i \in { 1, 2, 3 } THEN Check(x.out.some, "no reply to a well-formed request") ELSE << >>)
     /\ cl' = [cl EXCEPT ![i] =
          IF i \in { 1, 2 }
          THEN IF ~x.out.some THEN [c EXCEPT !.pc = "fail"]
               ELSE IF ~fb2.some THEN [c EXCEPT !.asm = r.msg.pay, !.pc = "done"]
               ELSE IF fb2.v.num * SizeOf(fb2.v.szx) # Len(c.asm) THEN [c EXCEPT !.pc = "fail"]
               ELSE IF fb2.v.more
                    THEN [c EXCEPT !.asm = @ \o r.msg.pay, !.n = @ + 1,
                                   !.b2 = Some([num |-> fb2.v.num + 1, more |-> FALSE, szx |-> fb2.v.szx])]
                    ELSE [c EXCEPT !.asm = @ \o r.msg.pay, !.pc = "done"]
          ELSE IF i = 3
          THEN IF ~x.out.some THEN [c EXCEPT !.pc = "fail"]
               ELSE IF (c.n + 1) * 16 < Len(UpBody)
                    THEN (IF r.msg.code = CODE_CONTINUE THEN [c EXCEPT !.n = @ + 1] ELSE [c EXCEPT !.pc = "fail"])
                    ELSE [c EXCEPT !.pc = "done", !.reply = r.msg.pay]
          ELSE IF c.n + 1 < Len(Junk) THEN [c EXCEPT !.n = @ + 1] ELSE [c EXCEPT !.pc = "done"]]

Next == \E i \in 1 .. 4 : Send(i)
Spec == Init /\ [][Next]_vars /\ WF_vars(Next)

NoViolation == viol = << >>
NoFailure == \A i \in 1 .. 4 : cl[i].pc # "fail"
Reassembled == \A i \in { 1, 2 } : cl[i].pc = "done" => cl[i].asm = BigBody
Uploaded == cl[3].pc = "done" => cl[3].reply = << 0, Len(UpBody), Sum(UpBody) >>
AllDone == <>(\A i \in 1 .. 4 : cl[i].pc = "done")

View == << M, cache, cl, viol >>
Emit == (EmitOn /\ \A i \in 1 .. 4 : cl'[i].pc = "done") =>
          CSVWrite("%1$s", << ToJson([M |-> M, steps |-> h']) >>, IOEnv.OUT)
=============================================================================
