------------------------------ MODULE MC_Splice ------------------------------
(***************************************************************************)
(* The public function extending_splice over every small argument tuple    *)
(* (destination 0..4 bytes, range start 0..6, range end 0..8, new data     *)
(* 0..3 bytes, reserve 0/1/2) and around the handler's 16 KiB reserve:     *)
(* SpliceProps in every state, agreement with the operator the handler     *)
(* specification uses, and the complete table emitted for replay.          *)
(* One state per (destination length, start, end).  Environment: OUT.      *)
(***************************************************************************)
EXTENDS BlockHandler, TLC, IOUtils, Json, CSV, FiniteSets, SequencesExt

Dst(n) == [i \in 1 .. n |-> 10 + i]
Src(n) == [i \in 1 .. n |-> 100 + i]

VARIABLE key
Keys == { [t |-> "small", d |-> d, a |-> a, b |-> b] : d \in 0 .. 4, a \in 0 .. 6, b \in 0 .. 8 }
   \cup { [t |-> "big", d |-> d, a |-> a, b |-> MaxReserve + d + x] : d \in { 0, 3 }, a \in { 0, 2, 5 }, x \in { 0, 1 } }
Init == key = [t |-> "start"]
Next == key.t = "start" /\ \E k \in Keys : key' = k
Spec == Init /\ [][Next]_key

Reserves == IF key.t = "big" THEN { MaxReserve } ELSE { 0, 1, 2 }
Cases == IF key.t = "start" THEN {} ELSE { [n |-> n, r |-> r] : n \in 0 .. 3, r \in Reserves }

Props == \A c \in Cases : SpliceProps(Dst(key.d), key.a, key.b, Src(c.n), c.r)
\* the operator InterceptRequest uses is this function at the handler's reserve
Agrees == key.t # "start" /\ key.a <= key.b =>
  \A n \in 0 .. 3 :
     LET g == SpliceRange(Dst(key.d), key.a, key.b, Src(n), MaxReserve)
         e == ExtendingSplice(Dst(key.d), key.a, key.b - key.a, Src(n)) IN
     IF g.k = "ok" THEN e = Some(g.v) ELSE e = None

Z(v) == IF Len(v) > 64 /\ \A i \in 1 .. Len(v) : v[i] = 0 THEN [z |-> Len(v)] ELSE v
\* long results are a kept prefix, the new data and zeros: emitted as head + count of trailing zeros
RECURSIVE TrailZ(_)
TrailZ(v) == IF v = << >> \/ v[Len(v)] # 0 THEN 0 ELSE 1 + TrailZ(SubSeq(v, 1, Len(v) - 1))
Pack(v) == IF Len(v) <= 64 THEN [head |-> v, zeros |-> 0]
           ELSE LET cut == Max2(key.a + 3, key.d) IN
                [head |-> SubSeq(v, 1, cut), zeros |-> Len(v) - cut]
Row(c) == LET r == SpliceRange(Dst(key.d), key.a, key.b, Src(c.n), c.r) IN
          [dst |-> Dst(key.d), a |-> key.a, b |-> key.b, src |-> Src(c.n), maxres |-> c.r, k |-> r.k,
           v |-> IF r.k = "ok" THEN Pack(r.v) ELSE [head |-> << >>, zeros |-> 0]]
\* a packed long result really is head + zeros
PackSound == \A c \in Cases :
  LET r == SpliceRange(Dst(key.d), key.a, key.b, Src(c.n), c.r) IN
  r.k = "ok" => LET p == Pack(r.v) IN r.v = p.head \o Zeros(p.zeros)
Emit == key.t = "start" \/
  CSVWrite("%1$s", << ToJson([rows |-> SetToSeq({ Row(c) : c \in Cases })]) >>, IOEnv.OUT)
=============================================================================
