---------------------------- MODULE MC_BlockValue ----------------------------
(***************************************************************************)
(* C13: round trip and minimality for every (num, more, szx); complete     *)
(* encode / decode / construction tables emitted for replay.               *)
(* One state per table key.  Environment: TAILS3 ("all" | "boundary").     *)
(***************************************************************************)
EXTENDS BlockValue, TLC, IOUtils, Json, CSV, FiniteSets, SequencesExt

Bools == { FALSE, TRUE }
Triples(n) == { [num |-> n, more |-> m, szx |-> s] : m \in Bools, s \in 0 .. 7 }

B3Heads == { 0, 1, 15, 16, 255 }
BoundaryBytes == { 0, 1, 7, 8, 15, 16, 127, 128, 239, 240, 255 }
Tail3 == IF IOEnv.TAILS3 = "all" THEN 0 .. 255 ELSE BoundaryBytes

NewNums  == { 0, 1, 4095, 4096, 65535, 65536 }
NewSizes == 0 .. 8200 \cup { 2 ^ k : k \in 13 .. 30 } \cup { 2 ^ k - 1 : k \in 13 .. 30 } \cup { 2 ^ k + 1 : k \in 13 .. 30 }

VARIABLE key
\* one key covers 16 consecutive block numbers / 16 consecutive sizes (fewer, longer lines);
\* keys are reached through 64 group states so that TLC's workers share the evaluation
Keys == { [t |-> "enc", n |-> n] : n \in 0 .. (MaxNum \div 16) }
   \cup { [t |-> "dec", x |-> x] : x \in 0 .. 255 }          \* all strings <= 2 bytes with first byte x (and <<>> for x = 0)
   \cup { [t |-> "dec3", x |-> x, y |-> y] : x \in B3Heads, y \in 0 .. 255 }
   \cup { [t |-> "new", size |-> s] : s \in 0 .. 512 }
   \cup { [t |-> "newbig", size |-> s] : s \in NewSizes \ (0 .. 8200) }
   \cup { [t |-> "newnum", n |-> n] : n \in 0 .. 256 }
GroupOf(k) == CASE k.t = "enc" -> k.n % 64 [] k.t = "dec" -> k.x % 64 [] k.t = "dec3" -> k.y % 64
                [] k.t = "new" -> k.size % 64 [] k.t = "newbig" -> k.size % 64 [] k.t = "newnum" -> k.n % 64
Init == key = [t |-> "start"]
Next == \/ key.t = "start" /\ \E g \in 0 .. 63 : key' = [t |-> "grp", g |-> g]
        \/ key.t = "grp" /\ \E k \in Keys : GroupOf(k) = key.g /\ key' = k
Spec == Init /\ [][Next]_key

\* the theorem, checked in every "enc" state
Nums16(k) == { x \in (k * 16) .. (k * 16 + 15) : x <= MaxNum }
Triples16(k) == UNION { Triples(n) : n \in Nums16(k) }
RoundTrip == key.t = "enc" =>
  \A bv \in Triples16(key.n) :
     /\ BvDec(BvEnc(bv)) = Some(bv)
     /\ Len(BvEnc(bv)) <= 3
     /\ (BvEnc(bv) # << >> => BvEnc(bv)[1] # 0)
     /\ BEVal(BvEnc(bv)) = BvScalar(bv)
     /\ SizeOf(bv.szx) \in { 16, 32, 64, 128, 256, 512, 1024, 2048 }

\* construction picks the largest power of two not above the size, at least 16
Sizes16(k) == { x \in (k * 16) .. (k * 16 + 15) : x <= 8200 }
NewShapeAt(size) ==
  LET r == BvNew(Small(0), FALSE, Small(size)) IN
  IF size = 0 \/ size >= 4096 THEN ~r.some
  ELSE r.some /\ (SizeOf(r.v.szx) <= size \/ (size < 16 /\ r.v.szx = 0))
              /\ (2 * SizeOf(r.v.szx) > size)
NewShape == /\ key.t = "new" => \A s \in Sizes16(key.size) : NewShapeAt(s)
            /\ key.t = "newbig" => NewShapeAt(key.size)

DecRow(b) == LET d == BvDec(b) IN IF d.some THEN [b |-> b, ok |-> TRUE, v |-> d.v] ELSE [b |-> b, ok |-> FALSE]
NewRow(n, m, s) == LET r == BvNew(n, m, s) IN
                   IF r.some THEN [num |-> n, more |-> m, size |-> s, ok |-> TRUE, v |-> r.v]
                   ELSE [num |-> n, more |-> m, size |-> s, ok |-> FALSE]
SeqOfSet(S) == SetToSeq(S)

Row ==
  CASE key.t = "enc" ->
         [t |-> "enc", rows |-> SeqOfSet({ [num |-> bv.num, more |-> bv.more, szx |-> bv.szx, enc |-> BvEnc(bv),
                                         size |-> SizeOf(bv.szx)] : bv \in Triples16(key.n) })]
    [] key.t = "dec" ->
         [t |-> "dec", rows |-> SeqOfSet({ DecRow(<< key.x, y >>) : y \in 0 .. 255 }
                                      \cup { DecRow(<< key.x >>) }
                                      \cup (IF key.x = 0 THEN { DecRow(<< >>) } ELSE {})
                                      \cup { DecRow(<< key.x, 0, 0, 0 >>), DecRow(<< 0, 0, 0, key.x >>) })]
    [] key.t = "dec3" ->
         [t |-> "dec", rows |-> SeqOfSet({ DecRow(<< key.x, key.y, z >>) : z \in Tail3 })]
    [] key.t = "new" ->
         [t |-> "new", rows |-> SeqOfSet({ NewRow(Small(n), m, Small(s)) : n \in NewNums, m \in Bools, s \in Sizes16(key.size) }
                                      \cup { NewRow([big |-> TRUE, v |-> 0], FALSE, Small(s)) : s \in Sizes16(key.size) })]
    [] key.t = "newbig" ->
         [t |-> "new", rows |-> SeqOfSet({ NewRow(Small(n), m, Small(key.size)) : n \in NewNums, m \in Bools })]
    [] key.t \in {"start", "grp"} -> [t |-> "none"]
    [] key.t = "newnum" ->
         [t |-> "new", rows |-> SeqOfSet({ NewRow(Small(n), TRUE, Small(s)) : s \in { 0, 15, 16, 1024, 4095, 4096 },
                                               n \in { x \in (key.n * 16) .. (key.n * 16 + 15) : x <= 4097 } }
                                      \cup { NewRow(Small(key.n), FALSE, [big |-> TRUE, v |-> 0]) })]

\* lines stay below 8 kB so that concurrent appends by several workers never interleave
ChunkSize == 48
Emit == key.t \in {"start", "grp"} \/
  LET r == Row
      n == Len(r.rows) IN
  \A c \in 0 .. ((n - 1) \div ChunkSize) :
     CSVWrite("%1$s", << ToJson([t |-> r.t, rows |-> SubSeq(r.rows, c * ChunkSize + 1, Min2(n, (c + 1) * ChunkSize))]) >>, IOEnv.OUT)
=============================================================================
