-------------------------- MODULE MC_BlockTransfer --------------------------
(***************************************************************************)
(* C08 / C09 / C10 on the specification: a client process against the      *)
(* handler operators of BlockHandler.tla.                                  *)
(*                                                                         *)
(* MODE = dl : a Block2 download.  The client asks for blocks 0,1,2,... of *)
(*   a body (no preference, early negotiation, or a smaller size after the *)
(*   first block); when the handler fragments, EVERY size the property     *)
(*   allows (AllowedSzx) is explored, not only the one Negotiate picks.    *)
(* MODE = ul : a Block1 upload, every non-final block delivered 1-3 times  *)
(*   in a row, optionally preceded by an abandoned prefix of another body. *)
(*                                                                         *)
(* Invariants: block shape, option echo, application consulted once,       *)
(* release, reassembly, size budget; liveness: the transfer completes.     *)
(* Complete behaviours that follow the code-shaped choices are emitted as  *)
(* call scripts for replay on the real handler.                            *)
(* Environment: MODE, SIZE (small | full), OUT (optional).                 *)
(***************************************************************************)
EXTENDS BlockHandler, TLC, IOUtils, Json, CSV

Mode == IOEnv.MODE
Full == IOEnv.SIZE = "full"
EmitOn == "OUT" \in DOMAIN IOEnv

\* salt 0 = a constant body (equal blocks: content must not matter), otherwise every offset distinct
Body(n, salt) == IF salt = 0 THEN [i \in 1 .. n |-> 170] ELSE [i \in 1 .. n |-> (i * 7 + (i \div 251) + salt * 13) % 256]
Seg == << 116 >>                                         \* Uri-Path "t"
\* token length varies from request to request (0..2 bytes, so the overhead bound stays valid)
Tok(n) == [i \in 1 .. (n % 3) |-> (n * 17 + i) % 256]

MkReq(code, mid, b1, b2, pay) ==
  LET o1 == << << OPT_URI_PATH, << Seg >> >> >>
      o2 == IF b2.some THEN Append(o1, << OPT_BLOCK2, << BvEnc(b2.v) >> >>) ELSE o1
      o3 == IF b1.some THEN Append(o2, << OPT_BLOCK1, << BvEnc(b1.v) >> >>) ELSE o2
  IN [ver |-> 1, typ |-> 0, code |-> code, mid |-> mid, tok |-> Tok(mid), opts |-> o3, pay |-> pay]

AppOpts(set) == IF set = 0 THEN << >>
                \* ETag, Observe, Location-Path with three values of which two are equal
                ELSE IF set = 1 THEN << << 4, << << 225, 226 >> >> >>, << 6, << << 18, 52 >> >> >>, << 8, << << 97 >>, << 98 >>, << 97 >> >> >> >>
                ELSE << << OPT_CONTENT_FORMAT, << << 42 >> >> >>, << 14, << << 60 >> >> >> >>

\* overhead of the application's reply and of the client's largest request
RespNP(set) == 4 + 2 + OptsLen(0, AppOpts(set))
ReqNP == NonPayload(MkReq(1, 1, None, Some([num |-> 300, more |-> FALSE, szx |-> 6]), << >>))

(* ------------------------------ configuration -------------------------------- *)
DlLens == IF Full THEN 0 .. 49 \cup { 63, 64, 65, 95, 96, 97, 127, 128, 129 } ELSE { 0, 1, 15, 16, 17, 31, 32, 33, 48, 49, 64, 65 }
DlRooms == IF Full THEN { 28, 29, 43, 44, 75, 76, 139, 140, 1000 } ELSE { 28, 44, 76, 1000 }
DlPrefs == IF Full THEN { None, Some(0), Some(1), Some(2), Some(6) } ELSE { None, Some(0), Some(1) }
DlReduce == { FALSE, TRUE }
DlSets == IF Full THEN { 0, 1, 2 } ELSE { 0, 1 }

UlLens == IF Full THEN 0 .. 49 \cup { 63, 64, 65, 96 } ELSE { 0, 1, 15, 16, 17, 32, 33, 48 }
UlSzx == IF Full THEN { 0, 1 } ELSE { 0 }
UlDups == { 1, 2, 3 }
UlAbandon == IF Full THEN 0 .. 6 ELSE { 0, 1, 3 }
\* growth beyond C09: the non-final blocks after block 0 may arrive in any order (the final one last);
\* order = a permutation of the block indices, identity for the in-order client
Perms(n) == { f \in [1 .. n -> 1 .. n] : \A i, j \in 1 .. n : f[i] = f[j] => i = j }
UlOrders(nblocks) == IF Mode = "ulperm" /\ nblocks >= 3 /\ nblocks <= 5
                     THEN { [i \in 1 .. nblocks |-> IF i = 1 THEN 0 ELSE IF i = nblocks THEN nblocks - 1 ELSE f[i - 1]] :
                              f \in Perms(nblocks - 2) }
                     ELSE { [i \in 1 .. nblocks |-> i - 1] }

VARIABLES cfg, st, pc, asm, app, nextB2, mid, blocks, viol, shaped, h, delivered, idx, rep
vars == << cfg, st, pc, asm, app, nextB2, mid, blocks, viol, shaped, h, delivered, idx, rep >>

\* a transfer that starts without a Block2 option may find an unfinished earlier transfer of
\* another body cached for the same key (C08's quantifier): pre = blocks fetched of that one
InitDl ==
  /\ \E len \in DlLens, room \in DlRooms, pref \in DlPrefs, red \in DlReduce, set \in DlSets, pre \in { 0, 1, 2 }, bk \in { 0, 1 } :
       /\ (pre > 0 => ~pref.some)
       /\ (bk = 0 => (pre = 0 /\ ~red /\ set = 0))
       /\ cfg = [mode |-> "dl", body |-> Body(len, bk), other |-> Body(100, 5), pre |-> pre,
                 M |-> Min2(1280, Max2(RespNP(set), ReqNP) + room), pref |-> pref, reduce |-> red, set |-> set]
  /\ nextB2 = IF cfg.pref.some THEN Some([num |-> 0, more |-> FALSE, szx |-> cfg.pref.v]) ELSE None
  /\ pc = IF cfg.pre > 0 THEN "pre" ELSE "send"

InitUl ==
  /\ \E len \in UlLens, szx \in UlSzx, dups \in (IF Mode = "ulperm" THEN { 1 } ELSE UlDups), ab \in (IF Mode = "ulperm" THEN { 0 } ELSE UlAbandon) :
     \E order \in UlOrders(IF len = 0 THEN 1 ELSE (len + SizeOf(szx) - 1) \div SizeOf(szx)), bk \in { 0, 2 } :
       /\ (bk = 0 => ab = 0)
       /\ cfg = [mode |-> "ul", pre |-> 0, order |-> order, body |-> Body(len, bk), other |-> Body(7 * SizeOf(szx) + 5, 9), szx |-> szx, dups |-> dups, abandon |-> ab,
              M |-> NonPayload(MkReq(3, 1, Some([num |-> 300, more |-> TRUE, szx |-> szx]), None, << >>)) + 12 + SizeOf(szx) + 40]
  /\ nextB2 = None
  /\ pc = IF cfg.abandon > 0 THEN "abandon" ELSE "upload"

Init == /\ st = EmptyEntry /\ asm = << >> /\ app = 0 /\ mid = 1 /\ blocks = 0 /\ viol = << >> /\ shaped = TRUE
        /\ h = << >> /\ delivered = << >> /\ idx = 0 /\ rep = 0
        /\ IF Mode \in {"dl", "dlre"} THEN InitDl ELSE InitUl

\* a download whose application reply carries Observe (set 1) is an observation: the client repeats
\* "Observe: register" on every request of the transfer, follow-up blocks included (not part of the key,
\* no influence on how blocks are served)
DlReq(m, b2) == LET q == MkReq(1, m, None, b2, << >>) IN
                IF cfg.set = 1 THEN [q EXCEPT !.opts = << << 6, << << >> >> >> >> \o @] ELSE q

Step(req, appv) == [op |-> "ireq", ep |-> "c", req |-> req, app |-> appv]
NoApp == [some |-> FALSE]

(* ------------------------------ download ---------------------------------------- *)
AppReply(resp) == [resp EXCEPT !.code = 69, !.pay = cfg.body, !.opts = AppOpts(cfg.set)]
AppJson == [some |-> TRUE, v |-> [code |-> 69, pay |-> cfg.body, opts |-> AppOpts(cfg.set)]]

\* the sizes the property allows for fragmenting this reply, and the code-shaped one
ClientSzx(e) == IF e.b2.some THEN Some(e.b2.v.szx) ELSE None
\* fragment app reply a with size exponent s at the requested offset
FragmentWith(e, a, s) ==
  LET off == IF e.b2.some THEN e.b2.v.num * SizeOf(e.b2.v.szx) ELSE 0
      bv == [num |-> off \div SizeOf(s), more |-> FALSE, szx |-> s]
      sv == ServeCached(a, bv, a) IN
  IF sv.k = "err" THEN Res([k |-> "err", code |-> sv.code], Some(sv.resp), << >>, e)
  ELSE Res(OkR(sv.more), Some(sv.resp), << >>, IF sv.more THEN [e EXCEPT !.cached = Some(a)] ELSE e)

Check(cond, what) == IF cond THEN << >> ELSE << what >>

HasAllOptionsOf(reply, opts) == \A i \in 1 .. Len(opts) : \E j \in 1 .. Len(reply.opts) : reply.opts[j] = opts[i]

\* what the client verifies on a reply that carries a block (C08 BlockShape, OptionEcho, C10 SizeBudget)
BlockChecks(reply, a) ==
  LET b == FirstBlock(reply, OPT_BLOCK2).v
      sz == SizeOf(b.szx) IN
  Check(b.num * sz = Len(asm), "block number disagrees with the byte offset")
  \o Check(reply.pay = Chunk(cfg.body, b.num, sz), "block payload is not the body's chunk")
  \o Check(b.more = MoreAfter(cfg.body, b.num, sz), "more flag")
  \o Check(b.more => Len(reply.pay) = sz, "non-final block is not full")
  \o Check(HasAllOptionsOf(reply, AppOpts(cfg.set)), "application option missing from a block")
  \o Check(WireLen(reply) <= cfg.M, "block-wise reply exceeds the budget")
  \o Check(b.szx <= 6 /\ (cfg.pref.some => sz <= SizeOf(cfg.pref.v)), "block size above the client's")

Receive(reply, entry, x, sh, stepj) ==
  LET fb == FirstBlock(reply, OPT_BLOCK2) IN
  /\ st' = entry /\ mid' = mid + 1 /\ blocks' = blocks + 1 /\ shaped' = sh
  /\ h' = Append(h, stepj)
  /\ UNCHANGED << cfg, delivered, idx, rep >>
  /\ IF ~fb.some
     THEN /\ asm' = asm \o reply.pay /\ pc' = "after" /\ nextB2' = None
          /\ viol' = viol \o Check(reply.pay = cfg.body /\ asm = << >>, "unfragmented reply is not the body")
                          \o Check(WireLen(reply) <= cfg.M, "unfragmented reply exceeds the budget")
     ELSE /\ asm' = asm \o reply.pay
          /\ viol' = viol \o BlockChecks(reply, reply)
          /\ IF fb.v.more
             THEN LET szx == IF cfg.reduce /\ blocks = cfg.pre /\ fb.v.szx > 0 THEN 0 ELSE fb.v.szx IN
                  /\ pc' = "send"
                  /\ nextB2' = Some([num |-> Len(asm') \div SizeOf(szx), more |-> FALSE, szx |-> szx])
             ELSE pc' = "after" /\ nextB2' = None

DlSend ==
  /\ pc = "send"
  /\ LET req == DlReq(mid, nextB2)
         x == InterceptRequest(st, req, cfg.M) IN
     IF x.out.k # "ok" \/ ~x.resp.some
     THEN /\ pc' = "fail" /\ viol' = Append(viol, "intercept_request refused an in-domain request")
          /\ UNCHANGED << cfg, st, asm, app, nextB2, mid, blocks, shaped, h, delivered, idx, rep >>
     ELSE IF x.out.handled
     THEN \* served from the cache
          /\ app' = app
          /\ Receive(x.resp.v, x.st, x, shaped, Step(req, AppJson))
     ELSE \* reaches the application, whose reply the handler may fragment
          LET a == AppReply(x.resp.v)
              y == InterceptResponse(x.st, Some(a), cfg.M)
              allowed == AllowedSzx(cfg.M, ClientSzx(x.st), LAMBDA s : NonPayload(a) + 6 + SizeOf(s))
              fragmented == y.resp.some /\ FirstBlock(y.resp.v, OPT_BLOCK2).some IN
          /\ app' = app + 1
          /\ IF y.out.k # "ok"
             THEN /\ pc' = "fail" /\ viol' = Append(viol, "intercept_response refused an in-domain reply")
                  /\ UNCHANGED << cfg, st, asm, nextB2, mid, blocks, shaped, h, delivered, idx, rep >>
             ELSE IF ~fragmented THEN Receive(y.resp.v, y.st, y, shaped, Step(req, AppJson))
             ELSE \* the code-shaped choice must be allowed; every allowed choice is explored
                  /\ FirstBlock(y.resp.v, OPT_BLOCK2).v.szx \in allowed
                  /\ \E s \in allowed :
                       LET z == IF s = FirstBlock(y.resp.v, OPT_BLOCK2).v.szx THEN y ELSE FragmentWith(x.st, a, s) IN
                       /\ z.out.k = "ok"
                       /\ Receive(z.resp.v, z.st, z, shaped /\ z = y, Step(req, AppJson))

\* the earlier, abandoned transfer: cfg.pre exchanges of another body with other options
DlPre ==
  /\ pc = "pre"
  /\ LET req == DlReq(mid, nextB2)
         x == InterceptRequest(st, req, cfg.M)
         otherApp == [some |-> TRUE, v |-> [code |-> 69, pay |-> cfg.other, opts |-> << << 4, << << 9, 9 >> >> >> >>]]
         y == IF x.out = OkR(FALSE) /\ x.resp.some
              THEN InterceptResponse(x.st, Some([x.resp.v EXCEPT !.code = 69, !.pay = cfg.other, !.opts = << << 4, << << 9, 9 >> >> >> >>]), cfg.M)
              ELSE x
         fb == IF y.resp.some THEN FirstBlock(y.resp.v, OPT_BLOCK2) ELSE None IN
     /\ st' = y.st /\ mid' = mid + 1 /\ h' = Append(h, Step(req, otherApp)) /\ blocks' = blocks + 1
     /\ IF blocks + 1 < cfg.pre /\ fb.some /\ fb.v.more
        THEN pc' = "pre" /\ nextB2' = Some([num |-> fb.v.num + 1, more |-> FALSE, szx |-> fb.v.szx])
        ELSE pc' = "send" /\ nextB2' = None
     /\ UNCHANGED << cfg, asm, app, viol, shaped, delivered, idx, rep >>

\* growth beyond C08: the client repeats its previous block request once (a lost reply); while the
\* transfer is unfinished the handler must serve the same block again and the transfer still completes
DlRetransmit ==
  /\ Mode = "dlre" /\ pc = "send" /\ blocks > cfg.pre /\ rep = 0 /\ nextB2.some /\ nextB2.v.num > 0
  /\ LET prev == [nextB2.v EXCEPT !.num = @ - 1]
         req == DlReq(mid, Some(prev))
         x == InterceptRequest(st, req, cfg.M)
         fb == IF x.resp.some THEN FirstBlock(x.resp.v, OPT_BLOCK2) ELSE None
         sz == SizeOf(prev.szx) IN
     /\ st' = x.st /\ mid' = mid + 1 /\ rep' = 1 /\ h' = Append(h, Step(req, AppJson))
     /\ viol' = viol \o Check(x.out = OkR(TRUE) /\ fb.some, "repeated block request not served from the cache")
                     \o Check(x.resp.some /\ x.resp.v.pay = Chunk(cfg.body, prev.num, sz) /\ fb.some /\ fb.v.more, "repeated block differs")
     /\ UNCHANGED << cfg, pc, asm, app, nextB2, blocks, shaped, delivered, idx >>

\* after the final block the entry is released: the next request reaches the application
DlAfter ==
  /\ pc = "after"
  /\ LET req == MkReq(1, mid, None, None, << >>)
         x == InterceptRequest(st, req, cfg.M) IN
     /\ viol' = viol \o Check(x.out = OkR(FALSE), "request after the final block did not reach the application")
                     \* the entry of THIS transfer is released; an unfinished earlier transfer whose entry this
                     \* (unfragmented) transfer never replaced stays until it expires (C20)
                     \o Check(~st.cached.some \/ (cfg.pre > 0 /\ st.cached.v.pay = cfg.other /\ blocks = cfg.pre + 1),
                              "cache entry not released after the final block")
     /\ pc' = "done" /\ st' = x.st /\ h' = Append(h, Step(req, NoApp)) /\ mid' = mid + 1
     /\ UNCHANGED << cfg, asm, app, nextB2, blocks, shaped, delivered, idx, rep >>

(* ------------------------------ upload -------------------------------------------- *)
NBlocks(body, sz) == IF body = << >> THEN 1 ELSE (Len(body) + sz - 1) \div sz

UlAbandonStep ==
  /\ pc = "abandon"
  /\ LET sz == SizeOf(cfg.szx)
         req == MkReq(3, mid, Some([num |-> idx, more |-> TRUE, szx |-> cfg.szx]), None, Chunk(cfg.other, idx, sz))
         x == InterceptRequest(st, req, cfg.M) IN
     /\ st' = x.st /\ mid' = mid + 1 /\ h' = Append(h, Step(req, NoApp))
     /\ viol' = viol \o Check(x.out = OkR(TRUE), "abandoned-prefix block not acknowledged")
     /\ IF idx + 1 < cfg.abandon THEN idx' = idx + 1 /\ pc' = "abandon" ELSE idx' = 0 /\ pc' = "upload"
     /\ UNCHANGED << cfg, asm, app, nextB2, blocks, shaped, delivered, rep >>

UlSend ==
  /\ pc = "upload"
  /\ LET sz == SizeOf(cfg.szx)
         n == NBlocks(cfg.body, sz)
         final == idx + 1 = n
         blk == cfg.order[idx + 1]
         b1 == [num |-> blk, more |-> ~final, szx |-> cfg.szx]
         req == MkReq(3, mid, Some(b1), None, Chunk(cfg.body, blk, sz))
         x == InterceptRequest(st, req, cfg.M)
         ack == IF x.resp.some THEN FirstBlock(x.resp.v, OPT_BLOCK1) ELSE None IN
     /\ mid' = mid + 1
     /\ UNCHANGED << cfg, asm, nextB2, blocks, shaped >>
     /\ IF ~final
        THEN \* 2.31 Continue, not passed to the application, Block1 echoing number and size
             /\ viol' = viol \o Check(x.out = OkR(TRUE), "non-final block reached the application or failed")
                             \o Check(x.resp.some /\ x.resp.v.code = CODE_CONTINUE, "non-final block not answered 2.31")
                             \o Check(ack.some /\ ack.v.num = blk /\ ack.v.szx = cfg.szx, "Block1 acknowledgement does not echo number and size")
                             \o Check(x.resp.some /\ x.resp.v.mid = req.mid /\ x.resp.v.tok = req.tok, "reply identity")
             /\ st' = x.st /\ h' = Append(h, Step(req, NoApp)) /\ app' = app /\ delivered' = delivered
             /\ IF rep + 1 < cfg.dups THEN rep' = rep + 1 /\ idx' = idx /\ pc' = "upload"
                ELSE rep' = 0 /\ idx' = idx + 1 /\ pc' = "upload"
        ELSE \* final block: the whole body reaches the application exactly once
             LET a == [x.resp.v EXCEPT !.code = 68]
                 y == InterceptResponse(x.st, Some(a), cfg.M) IN
             /\ viol' = viol \o Check(x.out = OkR(FALSE), "final block did not reach the application")
                             \o Check(ack.some, "final reply carries no Block1 acknowledgement")
                             \o Check(~x.st.upload.some, "buffer not released after the final block")
                             \o Check(y.out.k = "ok", "intercept_response failed on the final reply")
             /\ delivered' = Append(delivered, x.reqpay) /\ app' = app + 1
             /\ st' = y.st /\ pc' = "done" /\ idx' = idx /\ rep' = rep
             /\ h' = Append(h, Step(req, [some |-> TRUE, v |-> [code |-> 68, pay |-> << >>, opts |-> << >>]]))

Next == IF Mode \in {"dl", "dlre"} THEN DlPre \/ DlSend \/ DlRetransmit \/ DlAfter ELSE UlAbandonStep \/ UlSend
Spec == Init /\ [][Next]_vars /\ WF_vars(Next)

(* ------------------------------ properties ----------------------------------------- *)
NoViolation == viol = << >>
Reassembled == (Mode \in {"dl", "dlre"} /\ pc \in {"after", "done"}) => asm = cfg.body
AppOnce     == Mode \in {"dl", "dlre"} => (app <= 1 /\ (pc \in {"after", "done"} => app = 1))
Delivered   == (Mode \in {"ul", "ulperm"} /\ pc = "done") => delivered = << cfg.body >>
NeverFails  == pc # "fail"
Completes   == <>(pc = "done")

View == << cfg, st, pc, asm, app, nextB2, blocks, viol, shaped, delivered, idx, rep >>
Emit == (EmitOn /\ pc' = "done" /\ shaped') =>
          CSVWrite("%1$s", << ToJson([M |-> cfg.M, ttl |-> 3600000, steps |-> h']) >>, IOEnv.OUT)
=============================================================================
