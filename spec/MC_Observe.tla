----------------------------- MODULE MC_Observe -----------------------------
(***************************************************************************)
(* C14 / C15 on the specification: every history up to DEPTH over          *)
(* 2 endpoints x 2 tokens x 2 paths x 2 message ids x {CON, NON} x limits; *)
(* the step properties are checked on every transition, and every          *)
(* evaluated transition is emitted (history + predicted state) for replay. *)
(* Environment: DEPTH, LIMITS ("01" | "012"), OUT (optional).               *)
(***************************************************************************)
EXTENDS Observe, IOUtils, Json, CSV

Depth == atoi(IOEnv.DEPTH)
EmitOn == "OUT" \in DOMAIN IOEnv
Limits == IF IOEnv.LIMITS = "012" THEN { 0, 1, 2 } ELSE { 0, 1 }
Endpoints == { "e1", "e2" }
\* two tokens that differ only in length (both "zero" to anything that reads a token as a number)
Tokens == { << >>, << 0 >> }
Paths == { "a", "b/c" }
\* notification rounds also name a path nobody registers that differs from a registered one only by
\* what a normalisation would fold (a no-op in the specification: the registry is keyed by the exact string)
ProbePaths == Paths \cup { "/a" }
\* boundary message ids: the model is symmetric in them, the implementation may not be
Mids == { 0, 65535 }

Calls ==
     { [op |-> "register", ep |-> e, tok |-> k, p |-> p] : e \in Endpoints, k \in Tokens, p \in Paths }
  \cup { [op |-> "deregister", ep |-> e, tok |-> k, p |-> p] : e \in Endpoints, k \in Tokens, p \in Paths }
  \cup { [op |-> "changed", p |-> p, mid |-> m, con |-> c] : p \in ProbePaths, m \in Mids, c \in BOOLEAN }
  \cup { [op |-> "ack", ep |-> e, mid |-> m] : e \in Endpoints, m \in Mids }
  \cup { [op |-> "limit", n |-> n] : n \in Limits }

VARIABLES s, h, last
vars == << s, h, last >>
View == s

\* histories start by configuring the limit (one of Limits, or the default left alone)
Init == \/ s = InitSubject /\ h = << >> /\ last = [op |-> "none"]
        \/ \E n \in Limits : s = SetLimit(InitSubject, n) /\ h = << [op |-> "limit", n |-> n] >> /\ last = [op |-> "none"]
Next == \E c \in Calls : s' = ObsApply(s, c) /\ h' = Append(h, c) /\ last' = c
Spec == Init /\ [][Next]_vars

\* level 1 is the initial state: histories of at most Depth calls
Bound == TLCGet("level") <= Depth + 1

RECURSIVE Rounds(_, _, _, _)
Rounds(x, p, mid, n) == IF n = 0 THEN x ELSE Rounds(ResourceChanged(x, p, mid, FALSE), p, mid, n - 1)
\* the closed form used for long runs of rounds equals the rounds themselves
ManyIsRounds == \A p \in ProbePaths, m \in Mids, n \in 0 .. 3 : ChangedMany(s, p, m, n) = Rounds(s, p, m, n)
Inv == OneObserverPerEndpoint(s) /\ ManyIsRounds
\* (as action constraints these are evaluated on every transition; Assert makes a failure an error
\* instead of a silently discarded transition)
StepOk == Assert(StepProps(s, last', s'), << "step property violated by the specification's own step", last' >>)
\* the code-shaped step is one of the steps the property allows
Refines == Assert(s' \in ObsAllowed(s, last'), << "code-shaped step outside what the property allows", last' >>)

Proj(st) == [limit |-> st.limit,
             res |-> [p \in ProbePaths |-> IF Present(st, p)
                                      THEN [present |-> TRUE, seq |-> st.res[p].seq, obs |-> ViewSeq(st.res[p].obs)]
                                      ELSE [present |-> FALSE, seq |-> 0, obs |-> << >>]]]
Emit == EmitOn => CSVWrite("%1$s", << ToJson([h |-> h', st |-> Proj(s')]) >>, IOEnv.OUT)
=============================================================================
