----------------------------- MODULE MC_Message -----------------------------
(***************************************************************************)
(* C01 / C04 on the specification: every order of builder calls over a     *)
(* boundary alphabet; the wire functions are mutually consistent in every  *)
(* reachable message; every evaluated transition is emitted for replay.    *)
(* Environment: MODE (hdr | opt | long), MAXV (max stored values), OUT.    *)
(***************************************************************************)
EXTENDS Message, TLC, IOUtils, Json, CSV, FiniteSets

Mode == IOEnv.MODE
MaxV == atoi(IOEnv.MAXV)
EmitOn == "OUT" \in DOMAIN IOEnv

\* hdr: header setters in every order; opt: option calls over a small boundary alphabet
\* (emitted); optfull: the full boundary alphabet (invariants only); long: value lengths
\* around the 269 threshold
Nums == IF Mode = "hdr" THEN { 11 }
        ELSE IF Mode = "long" THEN { 1, 65535 }
        ELSE IF Mode = "opt" THEN { 0, 12, 13, 258, 269, 65535 }
        ELSE IF Mode = "optq" THEN { 12, 13, 258, 65535 }
        ELSE { 0, 1, 12, 13, 14, 23, 255, 256, 258, 268, 269, 270, 65535 }
Lens == IF Mode = "hdr" THEN { 1 }
        ELSE IF Mode = "long" THEN { 13, 268, 269, 270 }
        ELSE IF Mode = "opt" THEN { 0, 1, 12, 13 }
        ELSE IF Mode = "optq" THEN { 0, 12, 13 }
        ELSE { 0, 1, 12, 13, 14, 268, 269, 270 }
Vers  == IF Mode = "hdr" THEN 0 .. 3 ELSE { 1 }
Types == IF Mode = "hdr" THEN 0 .. 3 ELSE { 0 }
Codes == IF Mode = "hdr" THEN { 0, 1, 69, 132, 255 } ELSE { 0, 1 }
Mids  == IF Mode = "hdr" THEN { 0, 4660, 65535 } ELSE { 0 }
TokLens == IF Mode = "hdr" THEN { 0, 1, 8 } ELSE { 0 }
PayLens == IF Mode = "hdr" THEN { 0, 1, 2 } ELSE { 0, 1 }

\* a value is determined by its length and a salt, so repeated values are distinguishable
Val(n, s) == [i \in 1 .. n |-> (i * 7 + s * 31) % 256]

VARIABLES pkt, h
vars == << pkt, h >>
View == pkt

NVals(m) == LET RECURSIVE Cnt(_)
                Cnt(o) == IF o = << >> THEN 0 ELSE Len(Head(o)[2]) + Cnt(Tail(o))
            IN Cnt(m.opts)

Call(f, a) == [f |-> f, a |-> a]

Calls(m) ==
     { Call("set_version", [v |-> x]) : x \in Vers }
  \cup { Call("set_type", [v |-> x]) : x \in Types }
  \cup { Call("set_code", [v |-> x]) : x \in Codes }
  \cup { Call("set_mid", [v |-> x]) : x \in Mids }
  \cup { Call("set_token", [v |-> Val(x, 3)]) : x \in TokLens }
  \cup { Call("set_payload", [v |-> Val(x, 5)]) : x \in PayLens }
  \cup (IF NVals(m) < MaxV
        THEN { Call("add_option", [num |-> n, v |-> Val(x, NVals(m))]) : n \in Nums, x \in Lens }
        ELSE {})
  \cup (IF Mode = "hdr" THEN {} ELSE
        { Call("set_option", [num |-> n, vs |-> vs]) : n \in Nums,
              vs \in { << >>, << Val(1, 9) >>, << Val(13, 9), Val(0, 9) >> } }
        \cup { Call("clear_option", [num |-> n]) : n \in Nums }
        \cup { Call("clear_all_options", [x |-> 0]) })

Init == pkt = DefaultMsg /\ h = << >>
Next == \E c \in Calls(pkt) :
          /\ pkt' = Apply(pkt, c)
          /\ NVals(pkt') <= MaxV
          /\ Len(pkt'.opts) <= MaxV + 1
          /\ h' = Append(h, c)
Spec == Init /\ [][Next]_vars

(* ---- properties of the specification ------------------------------------ *)
RoundTrip == LET d == Decode(Encode(pkt)) IN
             d.verdict # "must_reject" /\ d.msg = Norm(pkt)
LenFormula == Len(Encode(pkt)) = WireLen(pkt)
CanonFix   == Canon(Encode(pkt)) = Encode(pkt)
Sorted     == SortedOpts(pkt)
BufferPlan == PlanWithinBounds(pkt)
\* C04: the limit rule is exact
LimitExact == /\ ToBytes(pkt, [some |-> TRUE, v |-> WireLen(pkt)]).k = "ok"
              /\ (WireLen(pkt) > 0 => ToBytes(pkt, [some |-> TRUE, v |-> WireLen(pkt) - 1]).k = "err")
              /\ ToBytes(pkt, [some |-> FALSE, v |-> 0]).k = "ok"

\* header setters are independent of each other and of options (order independence)
HeaderIndependent ==
  [][\A f \in {"ver", "typ", "code", "mid"} :
       (h' # h /\ h'[Len(h')].f \notin {"set_version", "set_type", "set_code", "set_mid"})
         => pkt'[f] = pkt[f]]_vars

Emit == EmitOn =>
  CSVWrite("%1$s", << ToJson([h |-> h', st |-> pkt', bytes |-> Encode(pkt'), wirelen |-> WireLen(pkt')]) >>, IOEnv.OUT)
=============================================================================
