---------------------------- MODULE MC_Registry ----------------------------
(***************************************************************************)
(* C05: the complete expected tables.  One state per number 0..65535; the  *)
(* row TLC predicts for it is emitted for replay.  A second family of rows *)
(* (n >= 65536) enumerates the registry names (name -> number direction).  *)
(***************************************************************************)
EXTENDS Registry, TLC, IOUtils, Json, CSV

ASSUME RegistryWellFormed

NameRows == { << "option", r[2], r[1] >> : r \in OptionRows }
       \cup { << "content_format", r[2], r[1] >> : r \in ContentFormatRows }
       \cup { << "method", r[2], r[1] >> : r \in MethodRows }
       \cup { << "response", r[2], r[1] >> : r \in ResponseRows }
       \cup { << "type", r[2], r[1] >> : r \in TypeRows }
       \cup { << "observe", r[2], r[1] >> : r \in ObserveRows }

\* the API's catch-all names are the image of no number: each stands for byte 255 (7.31), which reads
\* back as reserved and, taken as a response code, is an error like every byte from 128 up
CatchAllRows == { << "method", 255 >>, << "response", 255 >> }

\* the conversions take a usize: numbers beyond the 16-bit registries (a registered number plus 2^shift)
\* are unassigned whatever their low bits say
BigShifts == { 16, 17, 24, 31, 32, 40, 63 }
BigBases == { r[1] : r \in ObserveRows } \cup { r[1] : r \in ContentFormatRows } \cup { 2, 65535 }

VARIABLE row
Init == \/ \E n \in 0 .. 65535 : row = [kind |-> "number", n |-> n]
        \/ \E r \in NameRows : row = [kind |-> "name", space |-> r[1], name |-> r[2], n |-> r[3], err |-> IsErrorCode(r[3])]
        \/ \E b \in BigBases, sh \in BigShifts : row = [kind |-> "big", n |-> 0, base |-> b, shift |-> sh, cf |-> "-", obs |-> "-"]
        \/ \E r \in CatchAllRows : row = [kind |-> "catchall", space |-> r[1], n |-> r[2], err |-> IsErrorCode(r[2]),
                                           back |-> CodeKind(r[2])]
Next == UNCHANGED row
Spec == Init /\ [][Next]_row

Row == IF row.kind \in { "name", "catchall", "big" } THEN row
       ELSE LET n == row.n IN
            IF n <= 255
            THEN [kind |-> "number", n |-> n, opt |-> NameOf(OptionRows, n), cf |-> NameOf(ContentFormatRows, n),
                  obs |-> NameOf(ObserveRows, n), typ |-> NameOf(TypeRows, n),
                  code |-> [kind |-> CodeKind(n), name |-> CodeName(n), text |-> CodeText(n), err |-> IsErrorCode(n)],
                  hdr |-> [ver |-> n \div 64, typ |-> (n \div 16) % 4, tkl |-> n % 16]]
            ELSE [kind |-> "number", n |-> n, opt |-> NameOf(OptionRows, n), cf |-> NameOf(ContentFormatRows, n),
                  obs |-> NameOf(ObserveRows, n)]

Emit == CSVWrite("%1$s", << ToJson(Row) >>, IOEnv.OUT)
=============================================================================
