------------------------------ MODULE Registry ------------------------------
(***************************************************************************)
(* IANA "Constrained RESTful Environments (CoRE) Parameters" registries as *)
(* far as coap-lite's vocabulary goes: option numbers (RFC 7252, 7641,     *)
(* 7959, 7967, 8613), content formats, method and response codes (RFC      *)
(* 7252, 7959, 8132, 8516, 8768), message types, observe actions.          *)
(* Names are registry names; the harness maps the crate's variant names to *)
(* them with a fixed table.                                                *)
(***************************************************************************)
EXTENDS Naturals, Sequences, FiniteSets

\* <<number, registry name>>
OptionRows == {
  << 1, "If-Match" >>, << 3, "Uri-Host" >>, << 4, "ETag" >>, << 5, "If-None-Match" >>,
  << 6, "Observe" >>, << 7, "Uri-Port" >>, << 8, "Location-Path" >>, << 9, "OSCORE" >>,
  << 11, "Uri-Path" >>, << 12, "Content-Format" >>, << 14, "Max-Age" >>, << 15, "Uri-Query" >>,
  << 17, "Accept" >>, << 20, "Location-Query" >>, << 23, "Block2" >>, << 27, "Block1" >>,
  << 28, "Size2" >>, << 35, "Proxy-Uri" >>, << 39, "Proxy-Scheme" >>, << 60, "Size1" >>,
  << 258, "No-Response" >> }

ContentFormatRows == {
  << 0, "text/plain; charset=utf-8" >>,
  << 16, "application/cose; cose-type=\"cose-encrypt0\"" >>,
  << 17, "application/cose; cose-type=\"cose-mac0\"" >>,
  << 18, "application/cose; cose-type=\"cose-sign1\"" >>,
  << 19, "application/ace+cbor" >>,
  << 21, "image/gif" >>, << 22, "image/jpeg" >>, << 23, "image/png" >>,
  << 40, "application/link-format" >>, << 41, "application/xml" >>,
  << 42, "application/octet-stream" >>, << 47, "application/exi" >>,
  << 50, "application/json" >>, << 51, "application/json-patch+json" >>,
  << 52, "application/merge-patch+json" >>, << 60, "application/cbor" >>,
  << 61, "application/cwt" >>, << 62, "application/multipart-core" >>,
  << 63, "application/cbor-seq" >>,
  << 96, "application/cose; cose-type=\"cose-encrypt\"" >>,
  << 97, "application/cose; cose-type=\"cose-mac\"" >>,
  << 98, "application/cose; cose-type=\"cose-sign\"" >>,
  << 101, "application/cose-key" >>, << 102, "application/cose-key-set" >>,
  << 110, "application/senml+json" >>, << 111, "application/sensml+json" >>,
  << 112, "application/senml+cbor" >>, << 113, "application/sensml+cbor" >>,
  << 114, "application/senml-exi" >>, << 115, "application/sensml-exi" >>,
  << 140, "application/yang-data+cbor; id=sid" >>,
  << 256, "application/coap-group+json" >>,
  << 271, "application/dots+cbor" >>, << 272, "application/missing-blocks+cbor-seq" >>,
  << 280, "application/pkcs7-mime; smime-type=server-generated-key" >>,
  << 281, "application/pkcs7-mime; smime-type=certs-only" >>,
  << 284, "application/pkcs8" >>, << 285, "application/csrattrs" >>,
  << 286, "application/pkcs10" >>, << 287, "application/pkix-cert" >>,
  << 290, "application/aif+cbor" >>, << 291, "application/aif+json" >>,
  << 310, "application/senml+xml" >>, << 311, "application/sensml+xml" >>,
  << 320, "application/senml-etch+json" >>, << 322, "application/senml-etch+cbor" >>,
  << 340, "application/yang-data+cbor" >>, << 341, "application/yang-data+cbor; id=name" >>,
  << 432, "application/td+json" >>, << 836, "application/voucher-cose+cbor" >>,
  << 10000, "application/vnd.ocf+cbor" >>, << 10001, "application/oscore" >>,
  << 10002, "application/javascript" >>,
  << 11050, "application/json; deflate" >>, << 11060, "application/cbor; deflate" >>,
  << 11542, "application/vnd.oma.lwm2m+tlv" >>, << 11543, "application/vnd.oma.lwm2m+json" >>,
  << 11544, "application/vnd.oma.lwm2m+cbor" >>,
  << 20000, "text/css" >>, << 30000, "image/svg+xml" >> }

\* code byte = class * 32 + detail
Code(c, dd) == c * 32 + dd
MethodRows == { << Code(0, 1), "GET" >>, << Code(0, 2), "POST" >>, << Code(0, 3), "PUT" >>,
                << Code(0, 4), "DELETE" >>, << Code(0, 5), "FETCH" >>, << Code(0, 6), "PATCH" >>,
                << Code(0, 7), "iPATCH" >> }
ResponseRows == {
  << Code(2, 1), "Created" >>, << Code(2, 2), "Deleted" >>, << Code(2, 3), "Valid" >>,
  << Code(2, 4), "Changed" >>, << Code(2, 5), "Content" >>, << Code(2, 31), "Continue" >>,
  << Code(4, 0), "Bad Request" >>, << Code(4, 1), "Unauthorized" >>, << Code(4, 2), "Bad Option" >>,
  << Code(4, 3), "Forbidden" >>, << Code(4, 4), "Not Found" >>, << Code(4, 5), "Method Not Allowed" >>,
  << Code(4, 6), "Not Acceptable" >>, << Code(4, 8), "Request Entity Incomplete" >>,
  << Code(4, 9), "Conflict" >>, << Code(4, 12), "Precondition Failed" >>,
  << Code(4, 13), "Request Entity Too Large" >>, << Code(4, 15), "Unsupported Content-Format" >>,
  << Code(4, 22), "Unprocessable Entity" >>, << Code(4, 29), "Too Many Requests" >>,
  << Code(5, 0), "Internal Server Error" >>, << Code(5, 1), "Not Implemented" >>,
  << Code(5, 2), "Bad Gateway" >>, << Code(5, 3), "Service Unavailable" >>,
  << Code(5, 4), "Gateway Timeout" >>, << Code(5, 5), "Proxying Not Supported" >>,
  << Code(5, 8), "Hop Limit Reached" >> }
TypeRows == { << 0, "CON" >>, << 1, "NON" >>, << 2, "ACK" >>, << 3, "RST" >> }
ObserveRows == { << 0, "register" >>, << 1, "deregister" >> }

NameOf(rows, n) == IF \E r \in rows : r[1] = n THEN (CHOOSE r \in rows : r[1] = n)[2] ELSE "-"
NumOf(rows, name) == (CHOOSE r \in rows : r[2] = name)[1]
Named(rows, name) == \E r \in rows : r[2] = name

CodeName(b) == IF b = 0 THEN "Empty"
               ELSE IF \E r \in MethodRows : r[1] = b THEN NameOf(MethodRows, b)
               ELSE NameOf(ResponseRows, b)
CodeKind(b) == IF b = 0 THEN "empty"
               ELSE IF \E r \in MethodRows : r[1] = b THEN "request"
               ELSE IF \E r \in ResponseRows : r[1] = b THEN "response"
               ELSE "reserved"

\* RFC 7252 5.9 / 12.1: c.dd text form
Digit(d) == << "0", "1", "2", "3", "4", "5", "6", "7", "8", "9" >>[d + 1]
CodeText(b) == Digit(b \div 32) \o "." \o Digit((b % 32) \div 10) \o Digit((b % 32) % 10)
IsErrorCode(b) == b >= 128

\* Header::set_code(text), text as a sequence of character codes: the text is split at every '.', must
\* give exactly two parts, each an unsigned decimal as Rust's u8::from_str reads it (an optional '+',
\* at least one digit, nothing else, value <= 255), class <= 7 and detail <= 31.  Anything else is a
\* violated precondition (the function panics by design; it never stores a made-up code).
CH_DOT == 46
CH_PLUS == 43
IsDigitCh(c) == c >= 48 /\ c <= 57
RECURSIVE SplitDot(_)
SplitDot(t) == LET RECURSIVE Upto(_)
                   Upto(u) == IF u = << >> \/ Head(u) = CH_DOT THEN << >> ELSE << Head(u) >> \o Upto(Tail(u))
                   first == Upto(t) IN
               IF Len(first) = Len(t) THEN << first >>
               ELSE << first >> \o SplitDot(SubSeq(t, Len(first) + 2, Len(t)))
RECURSIVE DecVal(_, _)
DecVal(ds, acc) == IF ds = << >> THEN acc ELSE DecVal(Tail(ds), IF acc > 255 THEN 256 ELSE acc * 10 + (Head(ds) - 48))
ParseU8(t) == LET ds == IF t # << >> /\ Head(t) = CH_PLUS THEN Tail(t) ELSE t IN
              IF ds = << >> \/ \E i \in 1 .. Len(ds) : ~IsDigitCh(ds[i]) THEN [ok |-> FALSE]
              ELSE LET v == DecVal(ds, 0) IN IF v > 255 THEN [ok |-> FALSE] ELSE [ok |-> TRUE, v |-> v]
ParseCodeText(t) ==
  LET parts == SplitDot(t) IN
  IF Len(parts) # 2 THEN [ok |-> FALSE]
  ELSE LET c == ParseU8(parts[1])  d == ParseU8(parts[2]) IN
       IF c.ok /\ d.ok /\ c.v <= 7 /\ d.v <= 31 THEN [ok |-> TRUE, code |-> c.v * 32 + d.v] ELSE [ok |-> FALSE]

\* well-formedness of the transcription: one name per number, one number per name
Functional(rows) == \A r, s \in rows : (r[1] = s[1] \/ r[2] = s[2]) => r = s
RegistryWellFormed ==
  /\ Functional(OptionRows) /\ Functional(ContentFormatRows)
  /\ Functional(MethodRows \cup ResponseRows) /\ Functional(TypeRows)
  /\ Functional(ObserveRows)
  /\ \A r \in OptionRows \cup ContentFormatRows : r[1] \in 0 .. 65535
  /\ \A r \in MethodRows \cup ResponseRows : r[1] \in 1 .. 255
  /\ \A r \in ResponseRows : IsErrorCode(r[1]) <=> r[1] \div 32 \in {4, 5}
=============================================================================
