------------------------------ MODULE TraceLib ------------------------------
(***************************************************************************)
(* Common part of every trace specification: the recorded events, the      *)
(* position, the list of rejected events.  A rejected event does not stop  *)
(* validation: it is recorded and validation resumes (at the next event    *)
(* for stateless judgements, at the next "reset" for stateful ones), so    *)
(* the rest of the trace is still examined.                                *)
(***************************************************************************)
EXTENDS Naturals, Sequences, FiniteSets, TLC, IOUtils, Json

Rec == ndJsonDeserialize(IOEnv.TRACE)
NRec == Len(Rec)

HasField(r, f) == f \in DOMAIN r

\* index of the first "reset" event after position i (NRec + 1 if none)
RECURSIVE NextReset(_)
NextReset(i) == IF i > NRec THEN NRec + 1
                ELSE IF Rec[i].op = "reset" THEN i ELSE NextReset(i + 1)

BadEntry(i, props, why) == [i |-> i, props |-> props, why |-> why]
\* the list of rejected events is part of the state: keep it short (the first rejections are what
\* a replay needs; a change that breaks thousands of events must not blow up validation)
MaxBad == 40
AddBad(bad, entry) == IF Len(bad) < MaxBad THEN Append(bad, entry) ELSE bad

WriteResult(bad, extra) ==
  JsonSerialize(IOEnv.RESULT, [n |-> NRec, bad |-> bad, extra |-> extra])

\* the whole trace was consumed: one state per event, the initial state, the final state
Consumed == TLCGet("stats").diameter = NRec + 2
=============================================================================
