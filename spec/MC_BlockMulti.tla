---------------------------- MODULE MC_BlockMulti ----------------------------
(***************************************************************************)
(* C11 / C12 / C20 on the specification: the handler as a state machine    *)
(* over the whole cache (several keys, a logical clock), driven by scripted *)
(* transfers and hostile requests.                                          *)
(*                                                                         *)
(* MODE = iso    : 2-3 scripted transfers whose keys differ in exactly one *)
(*   of endpoint / method / path; ALL interleavings (the schedule is part  *)
(*   of the state).  NonInterference: every response equals the one the    *)
(*   transfer gets when it runs alone (Solo); Isolation: a step for one    *)
(*   key leaves every other key's entry unchanged; ReplyIdentity.          *)
(* MODE = expiry : a download, an upload and unrelated requests interleaved *)
(*   with clock ticks (ttl = 2 ticks): a follow-up after expiry reaches    *)
(*   the application, an upload restarts from an empty buffer, fresh       *)
(*   entries survive other keys' traffic, expired entries are purged on    *)
(*   the next use.                                                         *)
(* MODE = hostile: every sequence of up to DEPTH hostile requests (with    *)
(*   application replies) per budget: totality, renderable errors,         *)
(*   GrowthBound, jump rejection.                                          *)
(* Complete behaviours are emitted as call scripts for the real handler.   *)
(* Environment: MODE, SIZE (small | full), DEPTH, OUT (optional).           *)
(***************************************************************************)
EXTENDS BlockHandler, TLC, IOUtils, Json, CSV

Mode == IOEnv.MODE
Full == IOEnv.SIZE = "full"
Depth == atoi(IOEnv.DEPTH)
EmitOn == "OUT" \in DOMAIN IOEnv
TTL == 2

Body(n, salt) == [i \in 1 .. n |-> (i * 7 + salt * 13) % 256]
\* token length varies from request to request (0..8 bytes)
Tok(n) == [i \in 1 .. (n % 9) |-> (n * 17 + i) % 256]
SegA == << 97 >>
SegB == << 98 >>
SegAB == << 97, 47, 98 >>

MkReq(typ, code, mid, segs, b1, b2, pay, extra) ==
  LET o1 == IF segs = << >> THEN << >> ELSE << << OPT_URI_PATH, segs >> >>
      o2 == IF b2.some THEN Append(o1, << OPT_BLOCK2, << b2.v >> >>) ELSE o1
      o3 == IF b1.some THEN Append(o2, << OPT_BLOCK1, << b1.v >> >>) ELSE o2
      o4 == IF extra = 0 THEN o3 ELSE Append(o3, << 3000, << Zeros(extra) >> >>)
  IN [ver |-> 1, typ |-> typ, code |-> code, mid |-> mid, tok |-> Tok(mid), opts |-> o4, pay |-> pay]
Bv(n, m, s) == Some(BvEnc([num |-> n, more |-> m, szx |-> s]))

\* a scripted step: the request, the endpoint, and what the application answers if asked
ScriptStep(ep, req, appv) == [op |-> "ireq", ep |-> ep, req |-> req, app |-> appv]
NoApp == [some |-> FALSE]
AppV(code, pay, opts) == [some |-> TRUE, v |-> [code |-> code, pay |-> pay, opts |-> opts]]

\* upload of n blocks (szx 0) / download of n blocks (szx 0), for one key
UploadScriptM(ep, code, segs, n, salt, mb) ==
  [k \in 1 .. n |-> ScriptStep(ep, MkReq(0, code, mb + k, segs, Bv(k - 1, k < n, 0), None,
                                          Chunk(Body(16 * n - 5, salt), k - 1, 16), 0),
                               AppV(68, << >>, << >>))]
DownloadScriptM(ep, code, segs, n, salt, mb) ==
  [k \in 1 .. n |-> ScriptStep(ep, MkReq(0, code, mb + k, segs, None, Bv(k - 1, FALSE, 0), << >>, 0),
                               AppV(69, Body(16 * n - 3, salt), << << 4, << << salt >> >> >> >>))]

UploadScript(ep, code, segs, n, salt) == UploadScriptM(ep, code, segs, n, salt, salt * 100)
DownloadScript(ep, code, segs, n, salt) == DownloadScriptM(ep, code, segs, n, salt, salt * 100)

(* ---- one call on the whole cache -------------------------------------------------- *)
\* cache: key -> [e, touched]; returns [cache, resp (option), out, reqpay]
Call(cache, now, M, stp) ==
  LET k == KeyOf(stp.req, stp.ep)
      pre == Lookup(cache, k, now, TTL)
      x == InterceptRequest(pre, stp.req, M) IN
  IF x.out = OkR(FALSE) /\ x.resp.some /\ stp.app.some
  THEN LET a == [x.resp.v EXCEPT !.code = stp.app.v.code, !.pay = stp.app.v.pay,
                                 !.opts = CopyOpts(@, stp.app.v.opts)]
           y == InterceptResponse(x.st, Some(a), M) IN
       [cache |-> Store(cache, k, y.st, now, TTL), resp |-> y.resp, out |-> x.out, out2 |-> y.out, reqpay |-> x.reqpay, pre |-> pre, key |-> k]
  ELSE [cache |-> Store(cache, k, x.st, now, TTL), resp |-> x.resp, out |-> x.out, out2 |-> OkR(FALSE), reqpay |-> x.reqpay, pre |-> pre, key |-> k]

\* a transfer run alone from an empty cache: the sequence of its responses
RECURSIVE SoloFrom(_, _, _, _)
SoloFrom(script, i, cache, M) ==
  IF i > Len(script) THEN << >>
  ELSE LET c == Call(cache, 0, M, script[i]) IN << c.resp >> \o SoloFrom(script, i + 1, c.cache, M)
Solo(script, M) == SoloFrom(script, 1, << >>, M)

(* ---- configurations ------------------------------------------------------------------ *)
IsoLen == IF Full THEN 4 ELSE 3
KeySets ==
  IF Full
  THEN { << UploadScript("e1", 3, << SegA, SegB >>, IsoLen, 1), UploadScript("e2", 3, << SegA, SegB >>, IsoLen, 2) >>,
         << UploadScript("e1", 3, << SegA, SegB >>, IsoLen, 1), DownloadScript("e1", 2, << SegA, SegB >>, IsoLen, 2) >>,
         << DownloadScript("e1", 1, << SegA, SegB >>, IsoLen, 1), DownloadScript("e1", 1, << SegAB >>, IsoLen, 2) >>,
         << DownloadScript("e1", 1, << SegA >>, IsoLen, 1), UploadScript("e1", 1, << SegA, SegB >>, IsoLen, 2) >>,
         << UploadScript("e1", 3, << SegA, SegB >>, 3, 1), UploadScript("e2", 3, << SegA, SegB >>, 3, 2), DownloadScript("e1", 3, << SegAB >>, 3, 3) >>,
         << DownloadScript("e1", 1, << SegA, SegB >>, 3, 1), DownloadScript("e1", 5, << SegA, SegB >>, 3, 2), UploadScript("e2", 1, << SegA >>, 3, 3) >>,
         << DownloadScript("e1", 1, << SegA >>, IsoLen, 1), DownloadScript("e1", 1, << SegA, << >> >>, IsoLen, 2) >>,
         << UploadScript("e1", 3, << SegA >>, IsoLen, 1), UploadScript("e1", 3, << << >>, SegA >>, IsoLen, 2) >> }
  ELSE { << UploadScript("e1", 3, << SegA, SegB >>, IsoLen, 1), UploadScript("e2", 3, << SegA, SegB >>, IsoLen, 2) >>,
         \* paths that differ only by a trailing / leading empty segment
         << DownloadScript("e1", 1, << SegA >>, IsoLen, 1), DownloadScript("e1", 1, << SegA, << >> >>, IsoLen, 2) >>,
         << UploadScript("e1", 3, << SegA >>, IsoLen, 1), UploadScript("e1", 3, << << >>, SegA >>, IsoLen, 2) >>,
         << DownloadScript("e1", 1, << SegA, SegB >>, IsoLen, 1), DownloadScript("e1", 1, << SegAB >>, IsoLen, 2) >>,
         << UploadScript("e1", 3, << SegA, SegB >>, IsoLen, 1), DownloadScript("e1", 2, << SegA, SegB >>, IsoLen, 2) >>,
         << DownloadScript("e1", 1, << SegA >>, 3, 1), DownloadScript("e1", 5, << SegA >>, 3, 2), UploadScript("e2", 1, << SegA >>, 3, 3) >> }

\* MODE = split: the two entry points of an exchange are separate steps (an application that answers
\* later), so requests of different endpoints - here with EQUAL message ids - are in flight together
SplitKeySets == { << DownloadScriptM("e1", 1, << SegA >>, 2, 1, 500), DownloadScriptM("e2", 1, << SegA >>, 2, 2, 500) >>,
                  << DownloadScriptM("e1", 1, << SegA >>, 2, 1, 500), UploadScriptM("e2", 3, << SegA >>, 2, 2, 500) >> }

HostileBudgets == IF Full THEN { 0, 19, 20, 21, 32, 1152, 5000 } ELSE { 0, 21, 32, 1152 }
HNums == IF Full THEN { 0, 1, 2, 100, 4095 } ELSE { 0, 1, 100 }
HSzx == { 0, 6, 7 }
HostileReqs ==
     { MkReq(t, c, 7, << SegA >>, b1, None, Zeros(pl), ex) :
         t \in { 0, 2 }, c \in { 1, 3 },
         b1 \in { None, Some(<< >>), Some(<< 1, 2, 3, 4 >>) } \cup { Bv(n, TRUE, s) : n \in HNums, s \in HSzx } \cup { Bv(1, FALSE, 0) },
         pl \in { 0, 16, 17 }, ex \in { 0 } }
  \cup { MkReq(0, 1, 8, << SegA >>, None, b2, << >>, ex) :
         b2 \in { Some(<< >>), Some(<< 9, 9, 9, 9 >>) } \cup { Bv(n, FALSE, s) : n \in HNums, s \in HSzx },
         ex \in { 0, 8, 1290 } }
  \cup { MkReq(0, 3, 9, << SegA >>, None, None, Zeros(pl), 0) : pl \in { 1, 1200 } }
HostileApps == { AppV(69, << >>, << >>), AppV(69, Zeros(40), << >>), AppV(69, Zeros(3000), << << 4, << << 1 >> >> >> >>),
                 AppV(69, Zeros(100), << << OPT_BLOCK2, << << 2 >> >> >> >>) }

VARIABLES cfg, cache, clock, pos, sched, resps, viol, h, last, pend
vars == << cfg, cache, clock, pos, sched, resps, viol, h, last, pend >>

ExpiryScripts == << DownloadScript("e1", 1, << SegA >>, 3, 1), UploadScript("e1", 3, << SegB >>, 3, 2) >>

Init ==
  /\ cache = << >> /\ clock = 0 /\ sched = << >> /\ viol = << >> /\ h = << >> /\ last = [k |-> "none"]
  /\ IF Mode = "iso" THEN \E ks \in KeySets : cfg = [M |-> 1152, scripts |-> ks]
     ELSE IF Mode = "split" THEN \E ks \in SplitKeySets : cfg = [M |-> 1152, scripts |-> ks]
     ELSE IF Mode = "expiry" THEN cfg = [M |-> 1152, scripts |-> ExpiryScripts]
     ELSE \E m \in HostileBudgets : cfg = [M |-> m, scripts |-> << >>]
  /\ pos = [i \in 1 .. Len(cfg.scripts) |-> 0]
  /\ resps = [i \in 1 .. Len(cfg.scripts) |-> << >>]
  /\ pend = [i \in 1 .. Len(cfg.scripts) |-> None]

Check(cond, what) == IF cond THEN << >> ELSE << what >>

\* C12 on one step for key k: every other entry untouched (modulo the purge of expired ones)
OthersUntouched(before, after, k, now) ==
  \A q \in DOMAIN after \ { k } : q \in DOMAIN before /\ after[q] = before[q]

\* C11 on one step
HostileChecks(c, req) ==
  LET hadResp == NewResponse(req).some
      post == c.cache[c.key].e IN
  Check(OutcomeOk(c.out, hadResp), "error not renderable as 4.xx/5.xx")
  \o Check(OutcomeOk(c.out2, TRUE), "intercept_response error not renderable")
  \o Check(GrowthBound(c.pre, post, req), "upload buffer grew by more than 16 KiB beyond the payload")
  \o Check(LET rb1 == FirstBlock(req, OPT_BLOCK1) IN
           (rb1.some /\ rb1.v.num # 0 /\ (rb1.v.num + 1) * SizeOf(rb1.v.szx) > BufLen(c.pre) + MaxReserve)
              => (c.out.k = "err" /\ BufOf(post) = BufOf(c.pre)), "oversized jump not rejected, or buffer changed by a rejected block")
  \o Check(c.out.k = "ok" => ReplyIdentity(req, c.resp), "reply identity")

\* C20 on one step of the expiry model
Expired(k) == k \in DOMAIN cache /\ cache[k].touched + TTL < clock
Fresh(k) == k \in DOMAIN cache /\ cache[k].touched + TTL >= clock
ExpiryChecks(i, stp, c) ==
  LET b2 == FirstBlock(stp.req, OPT_BLOCK2)
      b1 == FirstBlock(stp.req, OPT_BLOCK1) IN
  \* purge on use: nothing expired survives a call
  Check(\A q \in DOMAIN c.cache : c.cache[q].touched + TTL >= clock, "expired entry survived a handler call")
  \* a follow-up block after expiry reaches the application like a fresh request
  \o Check((b2.some /\ b2.v.num > 0 /\ (Expired(c.key) \/ c.key \notin DOMAIN cache)) => c.out = OkR(FALSE), "follow-up after expiry served from stale state")
  \* while fresh, a follow-up is served from the cache whatever happened to other keys
  \o Check((b2.some /\ b2.v.num > 0 /\ Fresh(c.key) /\ cache[c.key].e.cached.some) => c.out = OkR(TRUE), "fresh cached response not used")
  \* an upload continued after expiry starts from an empty buffer
  \o Check((b1.some /\ b1.v.more /\ b1.v.num > 0 /\ (Expired(c.key) \/ c.key \notin DOMAIN cache))
              => BufOf(c.cache[c.key].e) = Zeros(b1.v.num * 16) \o stp.req.pay, "upload after expiry did not restart from an empty buffer")
  \o Check((b1.some /\ b1.v.more /\ b1.v.num > 0 /\ Fresh(c.key) /\ cache[c.key].e.upload.some)
              => BufOf(c.cache[c.key].e) = SubSeq(BufOf(cache[c.key].e), 1, b1.v.num * 16) \o stp.req.pay, "fresh upload buffer not continued")

TransferStep(i) ==
  /\ pos[i] < Len(cfg.scripts[i]) /\ Len(h) < Depth
  /\ LET stp == cfg.scripts[i][pos[i] + 1]
         c == Call(cache, clock, cfg.M, stp) IN
     /\ cache' = c.cache /\ pos' = [pos EXCEPT ![i] = @ + 1] /\ sched' = Append(sched, i)
     /\ resps' = [resps EXCEPT ![i] = Append(@, c.resp)]
     /\ h' = Append(h, stp) /\ last' = [k |-> "step", i |-> i, key |-> c.key, out |-> c.out, pre |-> c.pre]
     /\ viol' = viol
          \o Check(OthersUntouched(Purged(cache, clock, TTL), c.cache, c.key, clock), "another key's entry changed")
          \o Check(c.out.k = "ok" => ReplyIdentity(stp.req, c.resp), "reply does not carry the current request's id/token")
          \o (IF Mode = "iso" THEN Check(c.resp = Solo(cfg.scripts[i], cfg.M)[pos[i] + 1], "response differs from the solo run") ELSE << >>)
          \o (IF Mode = "expiry" THEN ExpiryChecks(i, stp, c) ELSE << >>)
     /\ UNCHANGED << cfg, clock, pend >>

Tick == /\ Mode = "expiry" /\ clock < 6 /\ Len(h) < Depth
        /\ clock' = clock + 1 /\ h' = Append(h, [op |-> "sleep", ticks |-> 1]) /\ last' = [k |-> "tick"]
        /\ UNCHANGED << cfg, cache, pos, sched, resps, viol, pend >>

Other == /\ Mode = "expiry" /\ Len(h) < Depth
         \* unrelated traffic: a request on another key whose reply is itself served block-wise
         \* (so it goes through every cache code path) - it must not keep idle entries alive
         /\ LET stp == ScriptStep("e9", MkReq(0, 1, 900 + Len(h), << SegAB >>, None, Bv(0, FALSE, 0), << >>, 0), AppV(69, Body(40, 7), << >>))
                c == Call(cache, clock, cfg.M, stp) IN
            /\ cache' = c.cache /\ h' = Append(h, stp) /\ last' = [k |-> "other"]
            /\ viol' = viol \o Check(OthersUntouched(Purged(cache, clock, TTL), c.cache, c.key, clock), "another key's entry changed")
                            \o Check(\A q \in DOMAIN c.cache : c.cache[q].touched + TTL >= clock, "expired entry survived a handler call")
            /\ UNCHANGED << cfg, clock, pos, sched, resps, pend >>

HostileStep ==
  /\ Mode = "hostile" /\ Len(h) < Depth
  /\ \E req \in HostileReqs, a \in HostileApps, ep \in { "h1" } :
       LET stp == ScriptStep(ep, req, a)
           c == Call(cache, clock, cfg.M, stp) IN
       /\ cache' = c.cache /\ h' = Append(h, stp) /\ last' = [k |-> "hostile"]
       /\ viol' = viol \o HostileChecks(c, req)
       /\ UNCHANGED << cfg, clock, pos, sched, resps, pend >>

\* the request half of an exchange: if it reaches the application the exchange stays pending
SplitReq(i) ==
  /\ Mode = "split" /\ ~pend[i].some /\ pos[i] < Len(cfg.scripts[i])
  /\ LET stp == cfg.scripts[i][pos[i] + 1]
         k == KeyOf(stp.req, stp.ep)
         pre == Lookup(cache, k, clock, TTL)
         x == InterceptRequest(pre, stp.req, cfg.M)
         goes == x.out = OkR(FALSE) /\ x.resp.some /\ stp.app.some IN
     /\ cache' = Store(cache, k, x.st, clock, TTL)
     /\ h' = Append(h, [op |-> "ireq_only", ep |-> stp.ep, req |-> stp.req])
     /\ sched' = Append(sched, i) /\ last' = [k |-> "splitreq"]
     /\ viol' = viol \o Check(OthersUntouched(Purged(cache, clock, TTL), cache', k, clock), "another key's entry changed")
     /\ IF goes THEN pend' = [pend EXCEPT ![i] = Some([stp |-> stp, resp |-> x.resp.v])] /\ UNCHANGED << pos, resps >>
        ELSE /\ pend' = pend /\ pos' = [pos EXCEPT ![i] = @ + 1] /\ resps' = [resps EXCEPT ![i] = Append(@, x.resp)]
     /\ UNCHANGED << cfg, clock >>
\* the response half, possibly after other endpoints' requests (with the same message id) came in
SplitResp(i) ==
  /\ Mode = "split" /\ pend[i].some
  /\ LET stp == pend[i].v.stp
         k == KeyOf(stp.req, stp.ep)
         pre == Lookup(cache, k, clock, TTL)
         a == [pend[i].v.resp EXCEPT !.code = stp.app.v.code, !.pay = stp.app.v.pay, !.opts = CopyOpts(@, stp.app.v.opts)]
         y == InterceptResponse(pre, Some(a), cfg.M) IN
     /\ cache' = Store(cache, k, y.st, clock, TTL)
     /\ h' = Append(h, [op |-> "iresp_only", ep |-> stp.ep, mid |-> stp.req.mid, app |-> stp.app])
     /\ sched' = Append(sched, i) /\ last' = [k |-> "splitresp"]
     /\ pend' = [pend EXCEPT ![i] = None] /\ pos' = [pos EXCEPT ![i] = @ + 1]
     /\ resps' = [resps EXCEPT ![i] = Append(@, y.resp)]
     /\ viol' = viol \o Check(OthersUntouched(Purged(cache, clock, TTL), cache', k, clock), "another key's entry changed")
                     \o Check(y.resp = Solo(cfg.scripts[i], cfg.M)[pos[i] + 1], "response differs from the solo run")
                     \o Check(ReplyIdentity(stp.req, y.resp), "reply does not carry the current request's id/token")
     /\ UNCHANGED << cfg, clock >>

Next == \/ (Mode \in {"iso", "expiry"} /\ \E i \in 1 .. Len(cfg.scripts) : TransferStep(i))
        \/ (\E i \in 1 .. Len(cfg.scripts) : SplitReq(i) \/ SplitResp(i))
        \/ Tick \/ Other \/ HostileStep
Spec == Init /\ [][Next]_vars

Bound == TLCGet("level") <= Depth + 1
NoViolation == viol = << >>
AllDone == \A i \in 1 .. Len(cfg.scripts) : pos[i] = Len(cfg.scripts[i])

\* iso keeps the schedule in the state (every interleaving is a distinct behaviour);
\* the other modes merge on cache contents
View == IF Mode \in {"iso", "split"} THEN << cfg, cache, pos, sched, viol, pend >> ELSE << cfg, cache, clock, pos, viol >>

Sampled == Mode # "expiry" \/ (Len(h') = Depth /\ (clock' * 7 + Len(SelectSeq(h', LAMBDA s : s.op = "sleep")) * 3 + pos'[1] * 5 + pos'[2]) % 4 = 0)
EmitNow == IF Mode \in {"iso", "split"} THEN \A i \in 1 .. Len(cfg.scripts) : pos'[i] = Len(cfg.scripts[i])
           ELSE IF Mode = "hostile" THEN TRUE ELSE Sampled
\* long runs of zero bytes are written as {"z": n} so that lines stay short
Z(v) == IF Len(v) > 24 /\ v = Zeros(Len(v)) THEN [z |-> Len(v)] ELSE v
ZOpts(opts) == [i \in 1 .. Len(opts) |-> << opts[i][1], [j \in 1 .. Len(opts[i][2]) |-> Z(opts[i][2][j])] >>]
ZStep(stp) == IF stp.op # "ireq" THEN stp   \* (sleep, ireq_only, iresp_only: small)
              ELSE [stp EXCEPT !.req = [@ EXCEPT !.pay = Z(@), !.opts = ZOpts(@)],
                               !.app = IF @.some THEN [@ EXCEPT !.v = [@ EXCEPT !.pay = Z(@), !.opts = ZOpts(@)]] ELSE @]
Emit == (EmitOn /\ EmitNow) =>
          CSVWrite("%1$s", << ToJson([M |-> cfg.M, ttl |-> IF Mode = "expiry" THEN 200 ELSE 3600000, tick |-> 80,
                                      steps |-> [i \in 1 .. Len(h') |-> ZStep(h'[i])]]) >>, IOEnv.OUT)
=============================================================================
