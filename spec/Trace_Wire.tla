----------------------------- MODULE Trace_Wire -----------------------------
(***************************************************************************)
(* Trace specification for the codec (C01-C04): recorded calls of          *)
(* from_bytes / to_bytes* and builder sequences are checked against        *)
(* Wire.tla / Message.tla.                                                 *)
(***************************************************************************)
EXTENDS Message, Registry, TraceLib

VARIABLES l, pkt, tkl, live, bad, done
vars == << l, pkt, tkl, live, bad, done >>

SameFields(got, exp) ==
  /\ got.ver = exp.ver /\ got.typ = exp.typ /\ got.code = exp.code
  /\ got.mid = exp.mid /\ got.tok = exp.tok /\ got.opts = exp.opts
  /\ (got.pay = exp.pay \/ (exp.code = 0 /\ got.pay = << >>))
  /\ got.tkl = Len(exp.tok)

JudgeFromBytes(e) ==
  LET d == Decode(e.in) IN
  IF e.out.k = "panic" THEN {"C03"}
  ELSE IF e.out.k = "err" THEN (IF d.verdict = "must_accept" THEN {"C03"} ELSE {})
  \* C02 speaks about every datagram the parser accepts - also one it should have rejected
  ELSE IF d.verdict = "must_reject" THEN {"C03"} \cup (IF e.re.k = "ok" /\ e.re.bytes = e.in THEN {} ELSE {"C02"})
  ELSE (IF SameFields(e.out.msg, d.msg) THEN {} ELSE {"C03"})
       \cup (IF e.re.k = "ok" /\ e.re.bytes = Canon(e.in) THEN {} ELSE {"C02"})

CopiesOk(e) == \A i \in 1 .. Len(e.copies) : e.copies[i][3] + e.copies[i][4] <= e.copies[i][2]
PlanOf(e) == [i \in 1 .. Len(e.copies) |-> << e.copies[i][1], e.copies[i][3], e.copies[i][4] >>]

JudgeToBytes(e) ==
  LET m == MsgOf(e.msg)
      x == ToBytes(m, e.limit) IN
  IF e.out.k = "panic" THEN {"C04"}
  ELSE (IF CopiesOk(e) THEN {} ELSE {"C04"}) \cup
       (IF x.k = "ok"
        THEN IF e.out.k # "ok"
             \* refused although it fits: the limit rule (C04); with no caller-chosen limit also "serialising
             \* yields the wire image" (C01)
             THEN (IF e.api = "to_bytes_with_limit" THEN {"C04"} ELSE {"C01", "C04"})
             ELSE (IF Len(e.out.bytes) = WireLen(m) THEN {} ELSE {"C04"})
                  \* the header's token-length nibble is written as stored (it can disagree with the
                  \* token when the public header field was replaced); the limit rule counts the bytes sent
                  \cup (IF e.out.bytes = [x.bytes EXCEPT ![1] = (@ \div 16) * 16 + e.msg.tkl] THEN {} ELSE {"C01", "C04"})
        ELSE IF e.out.k # "err" THEN {"C04"}
             ELSE IF x.e = "InvalidPacketLength" /\ e.out.e # "InvalidPacketLength" THEN {"C04"} ELSE {})

\* informational: the recorded copies follow the specified step sequence
Drift(e) == e.op = "to_bytes" /\ e.out.k = "ok" /\ e.copies # << >> /\ PlanOf(e) # CopyPlan(MsgOf(e.msg))

(* ---- typed option values (C06) ------------------------------------------ *)
JudgeUintEnc(e) == IF e.out.k = "ok" /\ e.out.bytes = UintEnc(e.digits) THEN {} ELSE {"C06"}
JudgeUintDec(e) == LET r == UintDec(e.in, e.w) IN
                   IF e.out.k = "panic" THEN {"C06"}
                   ELSE IF r.ok THEN (IF e.out.k = "ok" /\ e.out.digits = r.v THEN {} ELSE {"C06"})
                   ELSE (IF e.out.k = "err" THEN {} ELSE {"C06"})
JudgeStr(e) == IF e.out.k = "panic" THEN {"C06"}
               ELSE IF WellFormed(e.in) THEN (IF e.out.k = "ok" /\ e.out.bytes = e.in THEN {} ELSE {"C06"})
               ELSE (IF e.out.k = "err" THEN {} ELSE {"C06"})

\* the typed getters logged after a builder call agree with the model, element by element
TypedOk(e, exp) ==
  /\ \A i \in 1 .. Len(e.typed) :
        LET t == e.typed[i] IN
        /\ t.some = HasNum(exp.opts, t.num)
        /\ (t.some => /\ Len(t.res) = Len(UintView(exp, t.num, t.w))
                       /\ \A j \in 1 .. Len(t.res) :
                            LET r == UintView(exp, t.num, t.w)[j] IN
                            t.res[j].ok = r.ok /\ (r.ok => t.res[j].digits = r.v)
                       /\ t.strs = StrView(exp, t.num)
                       /\ (ValsOf(exp.opts, t.num) = << >> => ~t.first.some)
                       /\ (ValsOf(exp.opts, t.num) # << >> =>
                             t.first.some /\ t.first.ok = UintView(exp, t.num, t.w)[1].ok
                             /\ (t.first.ok => t.first.digits = UintView(exp, t.num, t.w)[1].v)))
  /\ LET o == ObserveView(exp) IN
     /\ e.obs.some = o.some
     /\ (o.some => e.obs.ok = o.r.ok /\ (o.r.ok => e.obs.digits = o.r.v))
  \* get_content_format: the FIRST stored value, as a uint of at most two bytes, if it is a registered id
  /\ HasField(e, "cf") =>
       LET vs == ValsOf(exp.opts, 12)
           r == IF vs = << >> THEN [ok |-> FALSE] ELSE UintDec(vs[1], 2)
           id == IF r.ok THEN r.v[1] * 256 + r.v[2] ELSE 0
           known == r.ok /\ NameOf(ContentFormatRows, id) # "-" IN
       e.cf.some = known /\ (known => e.cf.id = id)

\* The header's token-length nibble is builder state of its own: set_token synchronises it with
\* the token, set_token_length / replacing the public header field set it directly.  It is written
\* as stored; the round trip is only claimed while it agrees with the token (C01's messages).
NextTkl(t, e, exp) ==
  CASE e.f = "set_token" -> Len(e.a.v)
    [] e.f = "set_tkl" -> e.a.n
    [] e.f = "replace_header_raw" -> e.a.b % 16
    [] e.f = "replace_header" -> Len(exp.tok)
    [] OTHER -> t
WithTkl(bytes, t) == [bytes EXCEPT ![1] = (@ \div 16) * 16 + t]

JudgeCall(e, exp, t) ==
  IF HasField(e, "typed") /\ ~e.panicked /\ MsgOf(e.st) = exp /\ ~TypedOk(e, exp) THEN {"C06"} ELSE
  IF e.panicked \/ MsgOf(e.st) # exp \/ e.st.tkl # t
  THEN (IF e.f \in {"add_option_uint", "add_option_str", "set_options_uint", "set_observe_value"} THEN {"C06"} ELSE {"C01"})
  ELSE LET x == ToBytes(exp, [some |-> FALSE, v |-> 0]) IN
       IF x.k = "ok"
       THEN IF e.enc.k = "ok" /\ e.enc.bytes = WithTkl(x.bytes, t)
                 /\ (t = Len(exp.tok) => (e.dec.k = "ok" /\ MsgOf(e.dec.msg) = Norm(exp) /\ e.dec.msg.tkl = Len(exp.tok)))
            THEN {} ELSE {"C01"}
       ELSE IF e.enc.k = "err" THEN {} ELSE {"C04"}

Init == l = 1 /\ pkt = DefaultMsg /\ tkl = 0 /\ live = FALSE /\ bad = << >> /\ done = FALSE

Step ==
  /\ l <= NRec /\ l' = l + 1 /\ UNCHANGED done
  /\ LET e == Rec[l] IN
     CASE e.op = "reset" -> pkt' = DefaultMsg /\ tkl' = 0 /\ live' = TRUE /\ UNCHANGED bad
       [] e.op = "from_bytes" ->
            LET j == JudgeFromBytes(e) IN
            /\ bad' = IF j = {} THEN bad ELSE AddBad(bad, BadEntry(l, j, "decode"))
            /\ UNCHANGED << pkt, tkl, live >>
       [] e.op \in {"uint_enc", "uint_dec", "str_dec"} ->
            LET j == IF e.op = "uint_enc" THEN JudgeUintEnc(e)
                     ELSE IF e.op = "uint_dec" THEN JudgeUintDec(e) ELSE JudgeStr(e) IN
            /\ bad' = IF j = {} THEN bad ELSE AddBad(bad, BadEntry(l, j, "typed option value"))
            /\ UNCHANGED << pkt, tkl, live >>
       [] e.op = "hdr_ser" ->
            \* HeaderRaw::serialize_into: appends the four header bytes to whatever the buffer holds, refuses a
            \* buffer whose capacity is below four, and the vector's length never exceeds its capacity
            LET good == IF e.cap < 4 THEN e.out.k = "err" /\ e.out.bytes = e.pre /\ e.out.fits
                        ELSE e.out.k = "ok" /\ e.out.bytes = e.pre \o e.hdr /\ e.out.fits IN
            \* (the four bytes in the wrong place are a wrong wire image, C01, as much as a buffer matter, C04)
            /\ bad' = IF good THEN bad ELSE AddBad(bad, BadEntry(l, {"C01", "C04"}, "header serialisation"))
            /\ UNCHANGED << pkt, tkl, live >>
       [] e.op = "to_bytes" ->
            LET j == JudgeToBytes(e) IN
            /\ bad' = IF j = {} THEN bad
                      ELSE AddBad(bad, BadEntry(l, j, "serialise"))
            /\ UNCHANGED << pkt, tkl, live >>
       [] e.op = "call" ->
            IF ~live THEN UNCHANGED << pkt, tkl, live, bad >>
            ELSE LET exp == IF e.f \in {"set_tkl", "replace_header_raw"}
                            THEN (IF e.f = "set_tkl" THEN pkt
                                  ELSE [pkt EXCEPT !.ver = e.a.b \div 64, !.typ = (e.a.b \div 16) % 4, !.code = e.a.code, !.mid = e.a.mid])
                            ELSE Apply(pkt, e)
                     t == NextTkl(tkl, e, exp)
                     j == JudgeCall(e, exp, t) IN
                 /\ pkt' = exp /\ tkl' = t
                 /\ live' = (j = {})
                 /\ bad' = IF j = {} THEN bad ELSE AddBad(bad, BadEntry(l, j, "builder"))

Finish == l = NRec + 1 /\ ~done /\ done' = TRUE /\ UNCHANGED << l, pkt, tkl, live, bad >>
          /\ WriteResult(bad, [drift |-> Cardinality({i \in 1 .. NRec : Drift(Rec[i])}),
                                    episodes |-> Cardinality({i \in 1 .. NRec : Rec[i].op # "call"})])

Next == Step \/ Finish
Spec == Init /\ [][Next]_vars

\* model-side sanity evaluated on every state: the builder keeps options sorted
SortedInv == SortedOpts(pkt)
=============================================================================
