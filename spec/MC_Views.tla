------------------------------ MODULE MC_Views ------------------------------
(***************************************************************************)
(* C19 on the specification: sequences of convenience setters and raw      *)
(* option calls; after every call the matching getter shows what was       *)
(* stored, whatever was there before; every evaluated transition is        *)
(* emitted with all views for replay.                                      *)
(* Environment: MODE (pairs | triples), PLEN (path length in tokens), OUT. *)
(***************************************************************************)
EXTENDS Views, TLC, IOUtils, Json, CSV

Mode == IOEnv.MODE
PLen == atoi(IOEnv.PLEN)
EmitOn == "OUT" \in DOMAIN IOEnv
Depth == IF Mode = "pairs" THEN 2 ELSE 3

\* path tokens: '/', 'a', '.', e-acute (two bytes)
Toks == { << SLASH >>, << 97 >>, << 46 >>, << 195, 169 >> }
RECURSIVE Cat(_)
Cat(ts) == IF ts = << >> THEN << >> ELSE Head(ts) \o Cat(Tail(ts))
Paths == IF Mode = "pairs" THEN { Cat(ts) : ts \in UNION { [1 .. k -> Toks] : k \in 0 .. PLen } }
         ELSE { << >>, << SLASH >>, << 97 >>, << SLASH, 97, SLASH, 46 >>, << 97, SLASH, SLASH >>, << SLASH, SLASH, 195, 169 >> }

Names(rows) == { r[2] : r \in rows }
MethodNames == IF Mode = "pairs" THEN Names(MethodRows) ELSE { "GET", "iPATCH" }
StatusNames == IF Mode = "pairs" THEN Names(ResponseRows) ELSE { "Content", "Continue", "Hop Limit Reached" }
CfNames == IF Mode = "pairs" THEN Names(ContentFormatRows)
           ELSE { "text/plain; charset=utf-8", "application/json", "application/senml+xml", "image/svg+xml" }

Call(f, a) == [f |-> f, a |-> a]
Calls ==
     { Call("set_method", [name |-> n]) : n \in MethodNames }
  \cup { Call("set_status", [name |-> n]) : n \in StatusNames }
  \cup { Call("set_path", [p |-> p]) : p \in Paths }
  \cup { Call("set_observe_flag", [name |-> n]) : n \in { "register", "deregister" } }
  \cup { Call("set_content_format", [name |-> n]) : n \in CfNames }
  \cup { Call("add_option", [num |-> OPT_CONTENT_FORMAT, v |-> v]) : v \in { << >>, << 0, 50 >>, << 1, 2, 3 >>, << 255, 255 >> } }
  \cup { Call("add_option", [num |-> OPT_OBSERVE, v |-> v]) : v \in { << >>, << 1 >>, << 2 >>, << 0, 0, 0, 0, 1 >> } }
  \cup { Call("add_option", [num |-> OPT_URI_PATH, v |-> v]) : v \in { << 97 >>, << 255 >>, << 97, SLASH, 98 >> } }
  \cup { Call("set_code", [v |-> v]) : v \in { 0, 8, 64, 95, 255 } }
  \cup { Call("clear_option", [num |-> n]) : n \in { OPT_OBSERVE, OPT_URI_PATH, OPT_CONTENT_FORMAT } }
  \* the generic coap-message writer interface (the "api" field selects trait version 0.2 / 0.3 in the replay)
  \cup { Call("t_set_code", [v |-> v, api |-> api]) : v \in { 0, 2, 69 }, api \in { 2, 3 } }   \* 0 = Empty: a code like any other to the setter
  \cup { Call("t_add_option", [num |-> n, v |-> v, api |-> api]) : n \in { OPT_URI_PATH, 2049 }, v \in { << >>, << 98 >> }, api \in { 2, 3 } }
  \cup { Call("t_set_payload", [v |-> v, api |-> api]) : v \in { << >>, << 1, 2, 3 >> }, api \in { 2, 3 } }
  \cup { Call("t_payload_with_len", [n |-> n, api |-> api]) : n \in { 0, 2, 5 }, api \in { 2, 3 } }
  \cup { Call("t_truncate", [n |-> n, api |-> api]) : n \in { 0, 1, 9 }, api \in { 2, 3 } }
  \cup { Call("t_mutate_options", [x |-> 0, api |-> api]) : api \in { 2, 3 } }

VARIABLES pkt, h
vars == << pkt, h >>
View == pkt
Init == pkt = DefaultMsg /\ h = << >>
Next == \E c \in Calls : pkt' = ApplyV(pkt, c) /\ h' = Append(h, c)
Spec == Init /\ [][Next]_vars
Bound == TLCGet("level") <= Depth + 1

\* "whatever a setter stores is what the matching getter shows, whatever was there before"
\* (an action constraint, evaluated on every transition; Assert makes a failure an error instead of a
\* silently discarded transition)
SetThenGetHolds ==
  LET c == h'[Len(h')] IN
  CASE c.f = "set_method" -> GetMethod(pkt') = c.a.name
    [] c.f = "set_status" -> GetStatus(pkt') = c.a.name
    [] c.f = "set_path"   -> /\ GetPathVec(pkt') = [ok |-> TRUE, segs |-> PathSegments(c.a.p)]
                             /\ GetPath(pkt') = JoinSlash(PathSegments(c.a.p))
    [] c.f = "set_observe_flag" -> GetObserveFlag(pkt') = c.a.name
    [] c.f = "set_content_format" -> GetContentFormat(pkt') = c.a.name
    [] OTHER -> TRUE
SetThenGet == Assert(SetThenGetHolds, << "setter not visible through its getter", h'[Len(h')] >>)

\* the raw state and the encoded bytes agree with the views
RawAgrees ==
  /\ SortedOpts(pkt)
  /\ Decode(Encode(pkt)).msg = Norm(pkt)
  /\ \A i \in 1 .. Len(FlatOpts(pkt.opts)) - 1 : FlatOpts(pkt.opts)[i][1] <= FlatOpts(pkt.opts)[i + 1][1]
UnknownSurfaces ==
  /\ (pkt.code \notin 1 .. 7 => GetMethod(pkt) = "UnKnown")
  /\ (~(\E r \in ResponseRows : r[1] = pkt.code) => GetStatus(pkt) = "UnKnown")

Emit == EmitOn =>
  CSVWrite("%1$s", << ToJson([h |-> h', st |-> pkt', views |-> AllViews(pkt'), bytes |-> Encode(pkt')]) >>, IOEnv.OUT)
=============================================================================
