SPECIFICATION Spec
VIEW View
INVARIANT RoundTrip
INVARIANT LenFormula
INVARIANT CanonFix
INVARIANT Sorted
INVARIANT BufferPlan
INVARIANT LimitExact
PROPERTY HeaderIndependent
ACTION_CONSTRAINT Emit
CHECK_DEADLOCK FALSE
