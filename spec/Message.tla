------------------------------ MODULE Message ------------------------------
(***************************************************************************)
(* coap_lite::Packet as a mutable builder: one operator per public         *)
(* mutator, applied to the message record of Wire.tla.                     *)
(***************************************************************************)
EXTENDS Wire, Utf8

\* Packet::new(): version 1, Confirmable, GET, id 0, no token/options/payload
DefaultMsg == [ver |-> 1, typ |-> 0, code |-> 1, mid |-> 0, tok |-> << >>,
               opts |-> << >>, pay |-> << >>]

HasNum(opts, num) == \E i \in 1 .. Len(opts) : opts[i][1] = num
IdxOf(opts, num)  == CHOOSE i \in 1 .. Len(opts) : opts[i][1] = num
ValsOf(opts, num) == IF HasNum(opts, num) THEN opts[IdxOf(opts, num)][2] ELSE << >>

\* set_option: the entry for num holds exactly vs (kept in number order)
SetOpt(opts, num, vs) ==
  SelectSeq(opts, LAMBDA e : e[1] < num) \o << << num, vs >> >> \o
  SelectSeq(opts, LAMBDA e : e[1] > num)

\* add_option: append within the number, creating the entry if needed
AddOptVal(opts, num, v) == SetOpt(opts, num, Append(ValsOf(opts, num), v))

\* clear_option: the entry stays, holding no values
ClearOpt(opts, num) == IF HasNum(opts, num) THEN SetOpt(opts, num, << >>) ELSE opts

\* a builder call c = [f |-> name, a |-> arguments]
Apply(m, c) ==
  CASE c.f = "set_version"       -> [m EXCEPT !.ver = c.a.v]
    [] c.f = "set_type"          -> [m EXCEPT !.typ = c.a.v]
    [] c.f = "set_code"          -> [m EXCEPT !.code = c.a.v]
    [] c.f = "set_mid"           -> [m EXCEPT !.mid = c.a.v]
    [] c.f = "set_token"         -> [m EXCEPT !.tok = c.a.v]
    [] c.f = "set_payload"       -> [m EXCEPT !.pay = c.a.v]
    [] c.f = "add_option"        -> [m EXCEPT !.opts = AddOptVal(@, c.a.num, c.a.v)]
    [] c.f = "set_option"        -> [m EXCEPT !.opts = SetOpt(@, c.a.num, c.a.vs)]
    [] c.f = "clear_option"      -> [m EXCEPT !.opts = ClearOpt(@, c.a.num)]
    [] c.f = "clear_all_options" -> [m EXCEPT !.opts = << >>]
    \* the public header field replaced as a whole (its token-length nibble matching the token)
    [] c.f = "replace_header"    -> [m EXCEPT !.ver = c.a.b \div 64, !.typ = (c.a.b \div 16) % 4, !.code = c.a.code, !.mid = c.a.mid]
    \* typed adders / setters (C06): uint values are given as fixed-width digits
    [] c.f = "add_option_uint"   -> [m EXCEPT !.opts = AddOptVal(@, c.a.num, UintEnc(c.a.digits))]
    [] c.f = "add_option_str"    -> [m EXCEPT !.opts = AddOptVal(@, c.a.num, c.a.v)]
    [] c.f = "set_options_uint"  -> [m EXCEPT !.opts = SetOpt(@, c.a.num, [i \in 1 .. Len(c.a.ds) |-> UintEnc(c.a.ds[i])])]
    [] c.f = "set_observe_value" -> [m EXCEPT !.opts = SetOpt(@, 6, << UintEnc(c.a.digits) >>)]

\* a JSON-projected packet as a message record (the projection also has tkl)
MsgOf(j) == [ver |-> j.ver, typ |-> j.typ, code |-> j.code, mid |-> j.mid,
             tok |-> j.tok, opts |-> j.opts, pay |-> j.pay]

(* ---- typed views (C06): element by element, in order ---------------------- *)
\* get_options_as::<uint of width w>(num): none if the number has no entry
UintView(m, num, w) == [i \in 1 .. Len(ValsOf(m.opts, num)) |-> UintDec(ValsOf(m.opts, num)[i], w)]
StrView(m, num)     == [i \in 1 .. Len(ValsOf(m.opts, num)) |-> WellFormed(ValsOf(m.opts, num)[i])]
\* get_observe_value(): first Observe value at width 4
ObserveView(m) == IF ValsOf(m.opts, 6) = << >> THEN [some |-> FALSE]
                  ELSE [some |-> TRUE, r |-> UintDec(ValsOf(m.opts, 6)[1], 4)]

SortedOpts(m) == \A i \in 1 .. Len(m.opts) - 1 : m.opts[i][1] < m.opts[i + 1][1]

(* ---- the serialiser's buffer protocol (C04) ----------------------------- *)
\* The copies the encoder is specified to perform, as <<site, offset, n>>:
\* sites 1/2 append an option header / value to the options buffer, 3/4 append
\* token / options to the output after the 4 header bytes, 5 appends the payload
\* after the marker.
RECURSIVE ValCopies(_, _, _, _)
ValCopies(prev, num, vs, off) ==
  IF vs = << >> THEN << >>
  ELSE LET h == 1 + ExtLen(num - prev) + ExtLen(Len(Head(vs))) IN
       << << 1, off, h >>, << 2, off + h, Len(Head(vs)) >> >>
       \o ValCopies(num, num, Tail(vs), off + h + Len(Head(vs)))

RECURSIVE OptCopies(_, _, _)
OptCopies(prev, opts, off) ==
  IF opts = << >> THEN << >>
  ELSE LET num == Head(opts)[1]
           vs  == Head(opts)[2]
       IN IF vs = << >> THEN OptCopies(prev, Tail(opts), off)
          ELSE ValCopies(prev, num, vs, off)
               \o OptCopies(num, Tail(opts), off + ValsLen(prev, num, vs))

CopyPlan(m) ==
  OptCopies(0, m.opts, 0)
  \o << << 3, 4, Len(m.tok) >>, << 4, 4 + Len(m.tok), OptsLen(0, m.opts) >> >>
  \o (IF SendsPayload(m) THEN << << 5, 4 + Len(m.tok) + OptsLen(0, m.opts) + 1, Len(m.pay) >> >> ELSE << >>)

\* every planned copy into the output buffer ends inside the exact wire length,
\* and every planned copy into the options buffer ends inside the options length
PlanWithinBounds(m) ==
  \A i \in 1 .. Len(CopyPlan(m)) :
    LET c == CopyPlan(m)[i] IN
    IF c[1] <= 2 THEN c[2] + c[3] <= OptsLen(0, m.opts) ELSE c[2] + c[3] <= WireLen(m)
=============================================================================
