SPECIFICATION Spec
INVARIANT Total
INVARIANT Allowed
INVARIANT BelowThreshold
CHECK_DEADLOCK FALSE
INVARIANT OffsetWitness
