---------------------------- MODULE MC_ObserveBind ----------------------------
(***************************************************************************)
(* Binds ObserveTyped.tla (the typed copy Apalache reasons about) to       *)
(* Observe.tla (the specification the code is checked against): on every   *)
(* transition of MC_Observe the typed operators, applied to the converted  *)
(* state and call, yield the converted successor; the typed invariant and  *)
(* step properties hold on it as well.  Checked by TLC.                    *)
(***************************************************************************)
EXTENDS MC_Observe

T == INSTANCE ObserveTyped

ConvObs(q) == [i \in 1 .. Len(q) |->
                 [ep |-> q[i].ep, tok |-> q[i].tok, unacked |-> q[i].unacked,
                  hasMid |-> q[i].mid.some, mid |-> IF q[i].mid.some THEN q[i].mid.v ELSE 0]]
Conv(x) == [limit |-> x.limit,
            present |-> DOMAIN x.res,
            seqno |-> [p \in T!TPaths |-> IF p \in DOMAIN x.res THEN x.res[p].seq ELSE 0],
            obs |-> [p \in T!TPaths |-> IF p \in DOMAIN x.res THEN ConvObs(x.res[p].obs) ELSE << >>]]
Fld(c, f, d) == IF f \in DOMAIN c THEN c[f] ELSE d
ConvCall(c) == [op |-> c.op, ep |-> Fld(c, "ep", ""), tok |-> Fld(c, "tok", << >>), p |-> Fld(c, "p", ""),
                mid |-> Fld(c, "mid", 0), con |-> Fld(c, "con", FALSE), n |-> Fld(c, "n", 0)]

ASSUME Paths \cup ProbePaths \subseteq T!TPaths /\ Endpoints \subseteq T!TEndpoints /\ Tokens \subseteq T!TTokens
ASSUME Conv(InitSubject) = T!InitT

Agree == Assert(/\ T!ApplyT(Conv(s), ConvCall(last')) = Conv(s')
                /\ T!StepPropsT(Conv(s), ConvCall(last'), Conv(s')),
                << "ObserveTyped disagrees with Observe on", last' >>)
TypedInv == T!IndInvT(Conv(s))
=============================================================================
