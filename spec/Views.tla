-------------------------------- MODULE Views --------------------------------
(***************************************************************************)
(* The convenience layer over a message (C07, C19): CoapRequest /          *)
(* CoapResponse accessors, reply preparation, error application, and the   *)
(* generic coap-message view.  Everything is a function of the raw message *)
(* record of Wire.tla / Message.tla.                                       *)
(***************************************************************************)
EXTENDS Message, Registry

OPT_OBSERVE == 6
OPT_URI_PATH == 11
OPT_CONTENT_FORMAT == 12
SLASH == 47


(* ---- method / status ----------------------------------------------------- *)
GetMethod(m) == IF \E r \in MethodRows : r[1] = m.code THEN NameOf(MethodRows, m.code) ELSE "UnKnown"
GetStatus(m) == IF \E r \in ResponseRows : r[1] = m.code THEN NameOf(ResponseRows, m.code) ELSE "UnKnown"
SetMethod(m, name) == [m EXCEPT !.code = NumOf(MethodRows, name)]
SetStatus(m, name) == [m EXCEPT !.code = NumOf(ResponseRows, name)]

\* The stored code is an enum value, of which the message record keeps the byte.  Besides the 256 values a
\* byte decodes to ("canon") the API can store the catch-all method and status (byte 255) and a Reserved
\* value carrying the byte of a named code.  The form is tracked next to the message where it matters
\* (Trace_Views): the getters report UnKnown for a non-canonical form (or what its byte says: not pinned), the
\* generic views hand out the stored value itself, a copy through a byte (Code::new / try_from) is canonical,
\* a same-type copy keeps it.
CodeForms == { "canon", "Request(UnKnown)", "Response(UnKnown)", "Reserved" }
GetMethodF(m, form) == IF form = "canon" THEN GetMethod(m) ELSE "UnKnown"
GetStatusF(m, form) == IF form = "canon" THEN GetStatus(m) ELSE "UnKnown"
FormAfter(form, c) ==
  CASE c.f \in { "set_method", "set_status", "t_set_code", "set_code" } -> "canon"      \* with a named value / a code made from a byte
    [] OTHER -> form

(* ---- Uri-Path ------------------------------------------------------------- *)
\* split a byte string at '/'
RECURSIVE SplitSlash(_)
SplitSlash(p) ==
  LET RECURSIVE Find(_)
      Find(i) == IF i > Len(p) THEN 0 ELSE IF p[i] = SLASH THEN i ELSE Find(i + 1)
      k == Find(1)
  IN IF k = 0 THEN << p >> ELSE << Clip(p, 1, k - 1) >> \o SplitSlash(Clip(p, k + 1, Len(p)))
\* set_path: Uri-Path holds exactly one value per segment, a leading empty segment skipped
PathSegments(p) == LET segs == SplitSlash(p) IN IF Head(segs) = << >> THEN Tail(segs) ELSE segs
SetPath(m, p) ==
  LET segs == PathSegments(p) IN
  IF segs = << >> THEN [m EXCEPT !.opts = ClearOpt(@, OPT_URI_PATH)]
  ELSE [m EXCEPT !.opts = SetOpt(@, OPT_URI_PATH, segs)]
RECURSIVE JoinSlash(_)
JoinSlash(segs) == IF segs = << >> THEN << >>
                   ELSE IF Len(segs) = 1 THEN Head(segs)
                   ELSE Head(segs) \o << SLASH >> \o JoinSlash(Tail(segs))
\* get_path: the UTF-8 valid segments joined by '/'
GetPath(m) == JoinSlash(SelectSeq(ValsOf(m.opts, OPT_URI_PATH), WellFormed))
\* get_path_as_vec: error iff some segment is not UTF-8
GetPathVec(m) == LET vs == ValsOf(m.opts, OPT_URI_PATH) IN
                 IF \A i \in 1 .. Len(vs) : WellFormed(vs[i]) THEN [ok |-> TRUE, segs |-> vs]
                 ELSE [ok |-> FALSE, segs |-> << >>]

(* ---- Observe flag ---------------------------------------------------------- *)
GetObserveFlag(m) ==
  LET vs == ValsOf(m.opts, OPT_OBSERVE) IN
  IF vs = << >> THEN "none"
  ELSE LET r == UintDec(vs[1], 4) IN
       IF ~r.ok THEN "invalid"
       ELSE IF r.v = << 0, 0, 0, 0 >> THEN "register"
       ELSE IF r.v = << 0, 0, 0, 1 >> THEN "deregister" ELSE "invalid"
SetObserveFlag(m, f) == [m EXCEPT !.opts = SetOpt(@, OPT_OBSERVE, << IF f = "register" THEN << >> ELSE << 1 >> >>)]

(* ---- Content-Format -------------------------------------------------------- *)
GetContentFormat(m) ==
  LET vs == ValsOf(m.opts, OPT_CONTENT_FORMAT) IN
  IF vs = << >> THEN "-"
  ELSE LET r == UintDec(vs[1], 2) IN
       IF ~r.ok THEN "-" ELSE NameOf(ContentFormatRows, r.v[1] * 256 + r.v[2])
\* "whatever a setter stores is what the matching getter shows, whatever was there before"
SetContentFormat(m, name) ==
  [m EXCEPT !.opts = SetOpt(@, OPT_CONTENT_FORMAT, << NatBytes(NumOf(ContentFormatRows, name)) >>)]

(* ---- generic coap-message view --------------------------------------------- *)
RECURSIVE FlatOpts(_)
FlatOpts(opts) == IF opts = << >> THEN << >>
                  ELSE [i \in 1 .. Len(Head(opts)[2]) |-> << Head(opts)[1], Head(opts)[2][i] >>] \o FlatOpts(Tail(opts))
TraitView(m) == [code |-> m.code, pay |-> m.pay, opts |-> FlatOpts(m.opts)]

AllViews(m) == [method |-> GetMethod(m), status |-> GetStatus(m), path |-> GetPath(m),
                pathvec |-> GetPathVec(m), obs |-> GetObserveFlag(m), cf |-> GetContentFormat(m),
                flat |-> FlatOpts(m.opts)]

(* ---- coap-message writer calls (MinimalWritableMessage / MutableWritableMessage) --------- *)
\* payload_mut_with_len(n): the payload has exactly n bytes, kept prefix, zero filled
Resize(pay, n) == IF n <= Len(pay) THEN Clip(pay, 1, n) ELSE pay \o Zeros(n - Len(pay))
\* mutate_options with the callback "flip the lowest bit of the first byte of every non-empty value"
FlipFirst(v) == IF v = << >> THEN v ELSE [v EXCEPT ![1] = IF @ % 2 = 0 THEN @ + 1 ELSE @ - 1]
MutateOpts(opts) == [i \in 1 .. Len(opts) |-> << opts[i][1], [j \in 1 .. Len(opts[i][2]) |-> FlipFirst(opts[i][2][j])] >>]

\* convenience calls on top of Message!Apply
ApplyV(m, c) ==
  CASE c.f = "set_method"         -> SetMethod(m, c.a.name)
    [] c.f = "set_status"         -> SetStatus(m, c.a.name)
    [] c.f = "set_path"           -> SetPath(m, c.a.p)
    [] c.f = "set_observe_flag"   -> SetObserveFlag(m, c.a.name)
    [] c.f = "set_content_format" -> SetContentFormat(m, c.a.name)
    [] c.f = "t_set_code"         -> [m EXCEPT !.code = c.a.v]
    [] c.f = "t_add_option"       -> [m EXCEPT !.opts = AddOptVal(@, c.a.num, c.a.v)]
    [] c.f = "t_set_payload"      -> [m EXCEPT !.pay = c.a.v]
    [] c.f = "t_payload_with_len" -> [m EXCEPT !.pay = Resize(@, c.a.n)]
    [] c.f = "t_truncate"         -> [m EXCEPT !.pay = Clip(@, 1, Min2(c.a.n, Len(@)))]
    [] c.f = "t_mutate_options"   -> [m EXCEPT !.opts = MutateOpts(@)]
    [] OTHER -> Apply(m, c)

(* ---- C07: reply preparation ------------------------------------------------- *)
NewResponse(req) ==
  IF req.typ \in { 2, 3 } THEN None
  ELSE Some([ver |-> 1, typ |-> IF req.typ = 0 THEN 2 ELSE 1, code |-> 69, mid |-> req.mid,
             tok |-> req.tok, opts |-> << >>, pay |-> << >>])

\* err = [code |-> None | Some(byte), msg |-> bytes]
ApplyFromError(resp, err) ==
  IF ~resp.some \/ ~err.code.some THEN [ok |-> FALSE, resp |-> resp]
  ELSE [ok |-> TRUE,
        resp |-> Some(SetContentFormat([resp.v EXCEPT !.code = err.code.v, !.pay = err.msg], "text/plain; charset=utf-8"))]

\* property level (C07): what applying an error may touch
ErrorTouchesOnly(pre, post, err) ==
  /\ post.ver = pre.ver /\ post.typ = pre.typ /\ post.mid = pre.mid /\ post.tok = pre.tok
  /\ post.code = err.code.v /\ post.pay = err.msg
  /\ GetContentFormat(post) = "text/plain; charset=utf-8"
  \* Content-Format is not repeatable (RFC 7252 5.4.5, 5.10): "the content format" of the reply is that one
  \* value, whatever the prepared reply carried under the option before
  /\ Len(ValsOf(post.opts, OPT_CONTENT_FORMAT)) = 1
  /\ \A i \in 1 .. Len(pre.opts) : pre.opts[i][1] # OPT_CONTENT_FORMAT =>
        (\E j \in 1 .. Len(post.opts) : post.opts[j] = pre.opts[i])
  /\ \A j \in 1 .. Len(post.opts) : post.opts[j][1] # OPT_CONTENT_FORMAT =>
        (\E i \in 1 .. Len(pre.opts) : post.opts[j] = pre.opts[i])
=============================================================================
