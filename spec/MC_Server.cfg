SPECIFICATION Spec
VIEW View
INVARIANT NoViolation
INVARIANT NoFailure
INVARIANT Reassembled
INVARIANT Uploaded
PROPERTY AllDone
ACTION_CONSTRAINT Emit
CHECK_DEADLOCK FALSE
