-------------------------------- MODULE Utf8 --------------------------------
(***************************************************************************)
(* RFC 3629 / Unicode table 3-7: well-formed UTF-8 byte sequences.         *)
(***************************************************************************)
EXTENDS Naturals, Sequences

Cont(x) == x \in 128 .. 191

\* length of the well-formed scalar starting at b[i], 0 if none
ScalarLen(b, i) ==
  LET n  == Len(b)
      x  == b[i]
      c1 == IF i + 1 <= n THEN b[i + 1] ELSE 0
      c2 == IF i + 2 <= n THEN b[i + 2] ELSE 0
      c3 == IF i + 3 <= n THEN b[i + 3] ELSE 0
  IN IF x <= 127 THEN 1
     ELSE IF x \in 194 .. 223 THEN (IF Cont(c1) THEN 2 ELSE 0)
     ELSE IF x = 224 THEN (IF c1 \in 160 .. 191 /\ Cont(c2) THEN 3 ELSE 0)
     ELSE IF x \in 225 .. 236 \/ x \in 238 .. 239 THEN (IF Cont(c1) /\ Cont(c2) THEN 3 ELSE 0)
     ELSE IF x = 237 THEN (IF c1 \in 128 .. 159 /\ Cont(c2) THEN 3 ELSE 0)
     ELSE IF x = 240 THEN (IF c1 \in 144 .. 191 /\ Cont(c2) /\ Cont(c3) THEN 4 ELSE 0)
     ELSE IF x \in 241 .. 243 THEN (IF Cont(c1) /\ Cont(c2) /\ Cont(c3) THEN 4 ELSE 0)
     ELSE IF x = 244 THEN (IF c1 \in 128 .. 143 /\ Cont(c2) /\ Cont(c3) THEN 4 ELSE 0)
     ELSE 0

RECURSIVE WellFormedFrom(_, _)
WellFormedFrom(b, i) ==
  IF i > Len(b) THEN TRUE
  ELSE LET k == ScalarLen(b, i) IN k # 0 /\ WellFormedFrom(b, i + k)

WellFormed(b) == WellFormedFrom(b, 1)
=============================================================================
