-------------------------- MODULE Trace_LinkFormat --------------------------
(***************************************************************************)
(* Trace specification for the link-format code (C16, C17, C18).           *)
(*  parse     : one complete run of the real iterators over a string       *)
(*  roundtrip : a document written by the real writer and parsed back      *)
(*  fault     : the real writer over a fault-injecting sink, with the log  *)
(*              of every sink call                                          *)
(***************************************************************************)
EXTENDS LinkFormat, TraceLib

VARIABLES l, bad, done, drift
vars == << l, bad, done, drift >>

\* recorded position <<offset (1-based, 0 = outside the input), length>> as a slice
SliceOf(pos) == Slice(pos[1], pos[1] + pos[2] - 1)
PosOk(s, pos) == pos[2] = 0 \/ (pos[1] >= 1 /\ pos[1] + pos[2] - 1 <= Len(s))

\* all slices of a run in the order they were yielded
RECURSIVE AttrSlices(_)
AttrSlices(as) == IF as = << >> THEN << >> ELSE << Head(as).key, Head(as).val >> \o AttrSlices(Tail(as))
RECURSIVE RunSlices(_)
RunSlices(items) == IF items = << >> THEN << >>
                    ELSE (IF Head(items).k = "link" THEN << Head(items).t >> \o AttrSlices(Head(items).attrs) ELSE << >>)
                         \o RunSlices(Tail(items))
NonEmpty(ps) == SelectSeq(ps, LAMBDA p : p[2] > 0)
\* left-to-right: each non-empty slice starts after the previous non-empty slice ended
Ordered(ps) == \A i \in 1 .. Len(ps) - 1 : ps[i][1] + ps[i][2] - 1 < ps[i + 1][1]

FusedRun(items) == \A i \in 1 .. Len(items) : items[i].k = "err" => i = Len(items)

AttrsAgree(s, items) ==
  \A i \in 1 .. Len(items) : items[i].k = "link" =>
    \A j \in 1 .. Len(items[i].attrs) :
      LET a == items[i].attrs[j] IN
      a.cow_ok /\ a.chars_ok /\ a.disp_same /\ a.cow = a.chars

\* C17 on a recorded run
ParseOk(s, run) ==
  /\ ~run.panicked /\ ~run.nonterm /\ run.after_err = 0
  /\ FusedRun(run.items)
  /\ \A i \in 1 .. Len(RunSlices(run.items)) : PosOk(s, RunSlices(run.items)[i])
  /\ Ordered(NonEmpty(RunSlices(run.items)))
  /\ AttrsAgree(s, run.items)

\* the recorded run in the shape of LinkFormat!ParseDoc
RunContent(s, items) ==
  [i \in 1 .. Len(items) |->
     IF items[i].k = "err" THEN [k |-> "err"]
     ELSE [k |-> "link", target |-> SliceText(s, SliceOf(items[i].t)),
           attrs |-> [j \in 1 .. Len(items[i].attrs) |->
                        [key |-> SliceText(s, SliceOf(items[i].attrs[j].key)),
                         val |-> items[i].attrs[j].chars]]]]

\* exact agreement with the specified parse (informational unless the text was writer-produced)
SameAsSpec(s, run) == ParseOk(s, run) => RunContent(s, run.items) = ParseDoc(s)

\* documents arrive with kinds attr | quoted | u32 | u16 (u16 is written like u32)
NormDoc(d) == [i \in 1 .. Len(d) |->
                [target |-> d[i].target,
                 attrs |-> [j \in 1 .. Len(d[i].attrs) |->
                              [d[i].attrs[j] EXCEPT !.kind = IF @ = "u16" THEN "u32" ELSE @]]]]

JudgeRoundTrip(e) ==
  IF e.panicked \/ e.finish # "ok" THEN {"C16"}
  ELSE IF ~ParseOk(e.text, e.run) THEN {"C16", "C17"}
  ELSE IF RunContent(e.text, e.run.items) = DocContent(NormDoc(e.d)) THEN {} ELSE {"C16"}

\* C18 on the recorded sink-call log
RECURSIVE Held(_)
Held(calls) == IF calls = << >> THEN << >>
               ELSE (IF Head(calls)[2] THEN Head(calls)[1] ELSE << >>) \o Held(Tail(calls))
FirstFail(calls) == IF \E i \in 1 .. Len(calls) : ~calls[i][2]
                    THEN CHOOSE i \in 1 .. Len(calls) : ~calls[i][2] /\ \A j \in 1 .. (i - 1) : calls[j][2]
                    ELSE 0
JudgeFault(e) ==
  LET ff == FirstFail(e.calls) IN
  IF e.panicked THEN {"C18"}
  ELSE IF /\ (ff = 0 <=> e.finish = "ok")                       \* the final result reports every failure
          /\ (ff # 0 => ff = Len(e.calls))                      \* nothing reaches the sink after the failed write
          /\ IsPrefix(Held(e.calls), e.full)                    \* the sink holds a prefix of the fault-free output
          /\ (ff = 0 => Held(e.calls) = e.full)                 \* complete when the sink never fails
          \* the last link's own finish() reports it too, unless its attribute writer was dropped unfinished
          /\ (ff # 0 => e.lf # << >> /\ e.lf[Len(e.lf)] \in { "err", "dropped" })
       THEN {} ELSE {"C18"}

Init == l = 1 /\ bad = << >> /\ done = FALSE /\ drift = 0

Step ==
  /\ l <= NRec /\ l' = l + 1 /\ UNCHANGED done
  /\ LET e == Rec[l] IN
     CASE e.op = "parse" ->
            /\ bad' = IF ParseOk(e.s, e.run) THEN bad ELSE AddBad(bad, BadEntry(l, {"C17"}, "parse run"))
            /\ drift' = IF SameAsSpec(e.s, e.run) THEN drift ELSE drift + 1
       [] e.op = "roundtrip" ->
            /\ bad' = IF JudgeRoundTrip(e) = {} THEN bad ELSE AddBad(bad, BadEntry(l, JudgeRoundTrip(e), "round trip"))
            /\ drift' = IF e.panicked \/ e.text = WriteDoc(NormDoc(e.d), e.nl) THEN drift ELSE drift + 1
       [] e.op = "fault" ->
            /\ bad' = IF JudgeFault(e) = {} THEN bad ELSE AddBad(bad, BadEntry(l, JudgeFault(e), "sink fault"))
            /\ drift' = IF e.full = WriteDoc(NormDoc(e.d), e.nl) THEN drift ELSE drift + 1

Finish == l = NRec + 1 /\ ~done /\ done' = TRUE /\ UNCHANGED << l, bad, drift >>
          /\ WriteResult(bad, [episodes |-> NRec, drift |-> drift])

Next == Step \/ Finish
Spec == Init /\ [][Next]_vars
=============================================================================
