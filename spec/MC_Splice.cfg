SPECIFICATION Spec
INVARIANT Props
INVARIANT Agrees
INVARIANT PackSound
INVARIANT Emit
CHECK_DEADLOCK FALSE
