---------------------------- MODULE BlockHandler ----------------------------
(***************************************************************************)
(* RFC 7959 block-wise transfer as coap_lite::BlockHandler provides it:    *)
(* a cache keyed by (method, path segments, requester) of                  *)
(*   [b2     : last Block2 value the client sent (option),                 *)
(*    cached : response being served block by block (option),              *)
(*    upload : Block1 body being reassembled (option)]                     *)
(* with time-based expiry, two entry points (intercept_request before the  *)
(* application, intercept_response after it) and a configured maximum      *)
(* message size M.                                                         *)
(*                                                                         *)
(* Everything is a pure operator on one key's entry so that the model      *)
(* checker configurations (MC_Block..), the solo-run oracle of C12 and the *)
(* trace specification share the definitions.  Points at which the listed  *)
(* properties leave freedom are explicit (AllowedSzx, ErrCodeOk, ...); the *)
(* deterministic operators are one resolution of them.                     *)
(***************************************************************************)
EXTENDS Views, BlockValue

OPT_BLOCK2 == 23
OPT_BLOCK1 == 27
BlockOptionsMaxLength == 12          \* room reserved for the two block options
MaxReserve == 16384                  \* largest jump a single block may cause in the upload buffer

CODE_CONTINUE == 95                  \* 2.31
CODE_TOO_LARGE == 141                \* 4.13
CODE_BAD_REQUEST == 128              \* 4.00
CODE_INTERNAL == 160                 \* 5.00

EmptyEntry == [b2 |-> None, cached |-> None, upload |-> None]

\* cache key of a request from endpoint ep
KeyOf(req, ep) ==
  << IF req.code \in 1 .. 7 THEN req.code ELSE 255,
     IF GetPathVec(req).ok THEN GetPathVec(req).segs ELSE << >>,
     ep >>

\* first value of a block option, decoded; absent or undecodable = None
FirstBlock(m, num) ==
  LET vs == ValsOf(m.opts, num) IN
  IF vs = << >> THEN None ELSE BvDec(vs[1])

\* non-payload size of a message: what it encodes to without its payload
NonPayload(m) == 4 + Len(m.tok) + OptsLen(0, m.opts)
SizeMeasurable(m) == Encodable(m)

(* ---- block size negotiation ------------------------------------------------ *)
\* result: [k |-> "err", code] | [k |-> "none"] | [k |-> "bv", bv]
ErrR(code) == [k |-> "err", code |-> Some(code)]
Pow2Floor(n) == CHOOSE k \in 0 .. 30 : 2 ^ k <= n /\ n < 2 ^ (k + 1)
\* BlockValue::new on naturals that may exceed 4095 (sizes) / 65535 (numbers)
NewBv(num, more, size) ==
  IF size = 0 \/ size >= 4096 \/ num > MaxNum THEN None
  ELSE Some([num |-> num, more |-> more, szx |-> IF Pow2Floor(size) <= 4 THEN 0 ELSE Pow2Floor(size) - 4])

Negotiate(reqBlock, nonPayload, payLen, M) ==
  IF M < nonPayload + BlockOptionsMaxLength THEN ErrR(CODE_INTERNAL)
  ELSE LET room == M - (nonPayload + BlockOptionsMaxLength) IN
       IF reqBlock.some
       THEN LET rb == reqBlock.v
                neg == Min2(SizeOf(rb.szx), room) IN
            IF neg = 0 THEN ErrR(CODE_INTERNAL)
            ELSE LET start == rb.num * SizeOf(rb.szx)
                     b == NewBv(start \div neg, start + neg < payLen, neg) IN
                 IF b.some THEN [k |-> "bv", bv |-> b.v] ELSE ErrR(CODE_INTERNAL)
       ELSE IF payLen < room THEN [k |-> "none"]
            ELSE LET b == NewBv(0, TRUE, room) IN
                 IF b.some THEN [k |-> "bv", bv |-> b.v] ELSE ErrR(CODE_INTERNAL)

(* ---- C10: what the property allows ------------------------------------------ *)
\* sizes s in 0..6 that are no larger than the client's and whose carrying message fits M;
\* exactly the client's size when it fits with 32 bytes to spare.  carrier(s) = wire length
\* of the message that carries a full block of size exponent s.
AllowedSzx(M, client, Carrier(_)) ==
  LET fits == { s \in 0 .. 6 : (client.some => SizeOf(s) <= SizeOf(client.v)) /\ Carrier(s) <= M } IN
  IF client.some /\ client.v <= 6 /\ Carrier(client.v) + 32 <= M THEN { client.v } ELSE fits

(* ---- upload buffer ----------------------------------------------------------- *)
\* the public function extending_splice(dst, a .. b, src, maxres) for any range (0-based, b exclusive):
\*   "err"    the range end lies more than maxres beyond dst; dst is left as it was
\*   "panic"  a decreasing range (Vec::splice's own precondition; dst may already have been grown)
\*   "ok"     dst is zero-filled up to b if shorter, then the range is replaced by src
SpliceRange(dst, a, b, src, maxres) ==
  IF b > Len(dst) /\ b - Len(dst) > maxres THEN [k |-> "err"]
  ELSE IF a > b THEN [k |-> "panic"]
  ELSE LET grown == IF b > Len(dst) THEN dst \o Zeros(b - Len(dst)) ELSE dst IN
       [k |-> "ok", v |-> Clip(grown, 1, a) \o src \o Clip(grown, b + 1, Len(grown))]
\* what any implementation of the function must satisfy (the upload buffer relies on exactly this)
SpliceProps(dst, a, b, src, maxres) ==
  LET r == SpliceRange(dst, a, b, src, maxres) IN
  /\ (r.k = "err") = (b > Len(dst) + maxres)
  /\ r.k = "ok" =>
       /\ Len(r.v) = Max2(Len(dst), b) - (b - a) + Len(src)
       /\ Len(r.v) <= Len(dst) + maxres + Len(src)                           \* growth bound (C11)
       /\ \A i \in 1 .. Min2(a, Len(dst)) : r.v[i] = dst[i]                   \* data before the range is kept
       /\ \A i \in (Len(dst) + 1) .. a : r.v[i] = 0                          \* a gap is zero filled
       /\ \A i \in 1 .. Len(src) : r.v[a + i] = src[i]                       \* the new data, at its offset
       /\ \A i \in (b + 1) .. Len(dst) : r.v[i - (b - a) + Len(src)] = dst[i]  \* data after the range is kept

\* extending_splice(dst, off .. off+size, src, MaxReserve) as the handler calls it: None = rejected
ExtendingSplice(dst, off, size, src) ==
  LET end == off + size IN
  IF end > Len(dst) /\ end - Len(dst) > MaxReserve THEN None
  ELSE LET grown == IF end > Len(dst) THEN dst \o Zeros(end - Len(dst)) ELSE dst IN
       Some(Clip(grown, 1, off) \o src \o Clip(grown, end + 1, Len(grown)))

(* ---- serving a body block by block ------------------------------------------- *)
Chunk(body, num, size)     == Clip(body, num * size + 1, Min2((num + 1) * size, Len(body)))
HasChunk(body, num, size)  == num * size < Len(body) \/ (num = 0 /\ body = << >>)
MoreAfter(body, num, size) == (num + 1) * size < Len(body)

\* packet_clone_limited: version, type, code and every option of src; not id, token, payload
RECURSIVE CopyOpts(_, _)
CopyOpts(dst, srcOpts) == IF srcOpts = << >> THEN dst
                          ELSE CopyOpts(SetOpt(dst, Head(srcOpts)[1], Head(srcOpts)[2]), Tail(srcOpts))
CloneLimited(dst, src) == [dst EXCEPT !.ver = src.ver, !.typ = src.typ, !.code = src.code,
                                      !.opts = CopyOpts(dst.opts, src.opts)]

\* maybe_serve_cached_response: resp is the reply being prepared, b2 the requested block
ServeCached(resp, b2, cached) ==
  IF ~HasChunk(cached.pay, b2.num, SizeOf(b2.szx)) THEN [k |-> "err", code |-> Some(CODE_BAD_REQUEST), resp |-> CloneLimited(resp, cached)]
  ELSE LET more == MoreAfter(cached.pay, b2.num, SizeOf(b2.szx))
           r1 == CloneLimited(resp, cached)
           r2 == [r1 EXCEPT !.pay = Chunk(cached.pay, b2.num, SizeOf(b2.szx)),
                            !.opts = SetOpt(@, OPT_BLOCK2, << BvEnc([b2 EXCEPT !.more = more]) >>)]
       IN [k |-> "ok", resp |-> r2, more |-> more]

(* ---- intercept_request --------------------------------------------------------- *)
\* Result: [out, resp (option: the prepared reply afterwards), reqpay (request payload
\* afterwards), st (entry afterwards)], out = [k |-> "ok", handled] | [k |-> "err", code (option)]
OkR(h) == [k |-> "ok", handled |-> h]
NoCode == [k |-> "err", code |-> None]
Res(out, resp, reqpay, st) == [out |-> out, resp |-> resp, reqpay |-> reqpay, st |-> st]

AddBlock1(resp, bv) == [resp EXCEPT !.opts = AddOptVal(@, OPT_BLOCK1, BvEnc(bv))]

\* Block2 half, entered with the entry st, the (possibly rewritten) request payload and reply
Block2Step(st, req, resp, reqpay) ==
  LET b2 == FirstBlock(req, OPT_BLOCK2)
      st1 == [st EXCEPT !.b2 = b2] IN
  IF b2.some /\ st1.cached.some
  THEN IF ~resp.some THEN Res(NoCode, resp, reqpay, st1)
       ELSE LET s == ServeCached(resp.v, b2.v, st1.cached.v) IN
            IF s.k = "err" THEN Res([k |-> "err", code |-> s.code], Some(s.resp), reqpay, st1)
            ELSE Res(OkR(TRUE), Some(s.resp), reqpay, IF s.more THEN st1 ELSE [st1 EXCEPT !.cached = None])
  ELSE Res(OkR(FALSE), resp, reqpay, st1)

InterceptRequest(st, req, M) ==
  LET resp == NewResponse(req)
      rb1 == FirstBlock(req, OPT_BLOCK1) IN
  IF ~SizeMeasurable(req) THEN Res(ErrR(CODE_INTERNAL), resp, req.pay, st) ELSE
  LET n == Negotiate(rb1, NonPayload(req), Len(req.pay), M) IN
  IF n.k = "err" THEN Res(n, resp, req.pay, st)
  ELSE IF rb1.some /\ n.k = "bv"
  THEN LET buf0 == IF ~st.upload.some \/ rb1.v.num = 0 THEN << >> ELSE st.upload.v
           sp == ExtendingSplice(buf0, rb1.v.num * SizeOf(rb1.v.szx), SizeOf(rb1.v.szx), req.pay)
           stB == [st EXCEPT !.upload = Some(buf0)]
       IN IF ~sp.some THEN Res(ErrR(CODE_INTERNAL), resp, req.pay, stB)
          ELSE IF rb1.v.more
               THEN IF ~resp.some THEN Res(NoCode, resp, req.pay, [st EXCEPT !.upload = sp])
                    ELSE Res(OkR(TRUE), Some([AddBlock1(resp.v, n.bv) EXCEPT !.code = CODE_CONTINUE]),
                             req.pay, [st EXCEPT !.upload = sp])
               ELSE \* final block: the whole body goes to the application, the buffer is released
                    IF ~resp.some THEN Res(NoCode, resp, sp.v, [st EXCEPT !.upload = None])
                    ELSE Block2Step([st EXCEPT !.upload = None], req, Some(AddBlock1(resp.v, n.bv)), sp.v)
  ELSE IF ~rb1.some /\ n.k = "bv"
  THEN IF ~resp.some THEN Res(NoCode, resp, req.pay, st)
       ELSE Res(OkR(TRUE), Some([AddBlock1(resp.v, n.bv) EXCEPT !.code = CODE_TOO_LARGE]), req.pay, st)
  ELSE Block2Step(st, req, resp, req.pay)

(* ---- intercept_response --------------------------------------------------------- *)
\* app = the reply as the application left it (option); key state st
HasEntry(opts, num) == \E i \in 1 .. Len(opts) : opts[i][1] = num
InterceptResponse(st, app, M) ==
  IF ~app.some THEN Res(OkR(FALSE), app, << >>, st)
  ELSE IF HasEntry(app.v.opts, OPT_BLOCK2) THEN Res(OkR(FALSE), app, << >>, st)   \* the application does it itself
  ELSE IF ~SizeMeasurable(app.v) THEN Res(ErrR(CODE_INTERNAL), app, << >>, st)
  ELSE LET n == Negotiate(st.b2, NonPayload(app.v), Len(app.v.pay), M) IN
       IF n.k = "err" THEN Res(n, app, << >>, st)
       ELSE IF n.k = "none" THEN Res(OkR(FALSE), app, << >>, st)
       ELSE LET s == ServeCached(app.v, n.bv, app.v) IN
            IF s.k = "err" THEN Res([k |-> "err", code |-> s.code], Some(s.resp), << >>, st)
            ELSE Res(OkR(s.more), Some(s.resp), << >>, IF s.more THEN [st EXCEPT !.cached = app] ELSE st)

(* ---- the cache with expiry (C20) -------------------------------------------------- *)
\* cache: function key -> [e |-> entry, touched |-> time]; ttl in the same unit
Live(cache, now, ttl) == { k \in DOMAIN cache : cache[k].touched + ttl >= now }
Purged(cache, now, ttl) == [k \in Live(cache, now, ttl) |-> cache[k]]
\* entry().or_insert(default): purge, then the key's entry (default if absent), touched now
Lookup(cache, k, now, ttl) ==
  LET live == Purged(cache, now, ttl) IN
  IF k \in DOMAIN live THEN live[k].e ELSE EmptyEntry
Store(cache, k, e, now, ttl) ==
  LET live == Purged(cache, now, ttl) IN
  [j \in DOMAIN live \cup { k } |-> IF j = k THEN [e |-> e, touched |-> now] ELSE live[j]]

(* ---- property-level predicates (what the listed properties pin) --------------------- *)
IsErrClass(code) == code \in 128 .. 191           \* 4.xx / 5.xx
\* C11: an outcome is Ok, or an error renderable as 4.xx/5.xx (code-less only without a prepared reply)
OutcomeOk(out, hadResp) ==
  \/ out.k = "ok"
  \/ out.k = "err" /\ out.code.some /\ IsErrClass(out.code.v)
  \/ out.k = "err" /\ ~out.code.some /\ ~hadResp
BufLen(e) == IF e.upload.some THEN Len(e.upload.v) ELSE 0
BufOf(e) == IF e.upload.some THEN e.upload.v ELSE << >>
GrowthBound(pre, post, req) == BufLen(post) <= BufLen(pre) + MaxReserve + Len(req.pay)
RejectKeeps(pre, post, out) == out.k = "err" => BufOf(post) = BufOf(pre)
\* C12: the reply belongs to the request being answered
ReplyIdentity(req, resp) == resp.some => (resp.v.mid = req.mid /\ resp.v.tok = req.tok)
=============================================================================
