---------------------------- MODULE MC_LinkWrite ----------------------------
(***************************************************************************)
(* C16 / C18 on the specification: the writer state machine driven call by *)
(* call (link, attr, attr_quoted, attr_u32) while a document grows, over a *)
(* sink that never fails, fails once at call k, or fails from call k on.   *)
(* In every state: the C18 writer properties; with a fault-free sink the   *)
(* C16 round trip ParseDoc(out) = document.                                *)
(* Environment: MODE (value | value3 | struct | fault), OUT (optional).    *)
(***************************************************************************)
EXTENDS LinkFormat, TLC, IOUtils, Json, CSV

Mode == IOEnv.MODE
EmitOn == "OUT" \in DOMAIN IOEnv

A == 97
EACUTE == 233
NBSP == 160          \* a non-ASCII White_Space character (the attribute scanner trims Unicode white space)
Alpha == IF Mode = "value3" THEN { LT, SEMI, COMMA, QUOTE, BSL, EQ, SP, A, LF, EACUTE }
         ELSE IF Mode = "value" THEN { LT, SEMI, COMMA, QUOTE, BSL, EQ, SP, A, NBSP, EACUTE }
         ELSE { LT, SEMI, COMMA, QUOTE, BSL, EQ, SP, A }
Strs(n) == UNION { [1 .. k -> Alpha] : k \in 0 .. n }

Rep5 == { << >>, << A, 49 >>, << 52, 48 >>, << A, COMMA, SEMI, SP >>, << QUOTE, BSL, A, BSL >> }

Rep3 == { << >>, << A, COMMA, SEMI, SP >>, << QUOTE, BSL, A, BSL >> }
\* sizes (multiplied out): value (10 letters, 111 values) 2 targets x (1 + 224 + 224^2) x 2 nl = 202 k states; value3 (1 nl,
\* second attribute from Rep5) 2 x (1 + 2224 + 2224 x 12) = 58 k; struct 3 links x <= 2 attributes x 4
\* choices: 2 x 21 = 42 per link, 42 + 42^2 + 42^3 = 76 k x 2 nl = 152 k; fault <= 2 links x <= 2
\* attributes x 5 choices: 31 + 31^2 = 1 k x 2 nl x 49 faults = 97 k
\* value4: one link, ONE attribute, every value up to length 4 (C16's exhaustive bound): 4 681 values
\* x 2 kinds x 2 targets x 2 nl = 37 k states
Values1 == IF Mode = "keys" THEN { << A >>, << >> }
           ELSE IF Mode = "value" THEN Strs(2)
           ELSE IF Mode = "value4" THEN Strs(4)
           ELSE IF Mode = "value3" THEN Strs(3)
           ELSE Rep3
Values2 == IF Mode = "value" THEN Strs(2) ELSE IF Mode = "value3" THEN Rep5 ELSE Values1
Targets == IF Mode = "keys" THEN { << 47, A >> }
           ELSE IF Mode \in {"value", "value3", "value4"} THEN { << >>, << A, SEMI, LT, QUOTE, COMMA >> }
           ELSE IF Mode = "struct" THEN { << >>, << A, COMMA, SEMI, QUOTE, LT, SP >> }
           ELSE { << 47, A >> }
\* MODE = keys: one link, up to three attributes, every key the crate names (RFC 6690 / 8288 / 9176
\* attribute names) plus one it does not, in every order and with repetitions: 21 + 21^2 + 21^3 = 9 723
\* documents x 2 nl.  The writer and the parsers are generic: nothing may depend on which attribute it is.
Str2Codes(str) == CASE str = "rel" -> << 114, 101, 108 >> [] str = "anchor" -> << 97, 110, 99, 104, 111, 114 >>
                    [] str = "hreflang" -> << 104, 114, 101, 102, 108, 97, 110, 103 >> [] str = "media" -> << 109, 101, 100, 105, 97 >>
                    [] str = "title" -> << 116, 105, 116, 108, 101 >> [] str = "title*" -> << 116, 105, 116, 108, 101, 42 >>
                    [] str = "type" -> << 116, 121, 112, 101 >> [] str = "rt" -> << 114, 116 >> [] str = "if" -> << 105, 102 >>
                    [] str = "sz" -> << 115, 122 >> [] str = "v" -> << 118 >> [] str = "ct" -> << 99, 116 >>
                    [] str = "obs" -> << 111, 98, 115 >> [] str = "ep" -> << 101, 112 >> [] str = "lt" -> << 108, 116 >>
                    [] str = "d" -> << 100 >> [] str = "base" -> << 98, 97, 115, 101 >> [] str = "gp" -> << 103, 112 >>
                    [] str = "et" -> << 101, 116 >> [] str = "k" -> << 107 >> [] str = "REL" -> << 82, 69, 76 >>
NamedKeys == { Str2Codes(x) : x \in { "rel", "anchor", "hreflang", "media", "title", "title*", "type", "rt", "if", "sz", "v", "ct",
                                      "obs", "ep", "lt", "d", "base", "gp", "et", "k", "REL" } }
\* (and the empty key: the writer takes any string)
Keys == IF Mode = "keys" THEN NamedKeys \cup { << >> } ELSE { << 107 >> }
Kinds == IF Mode \in {"value", "value3", "value4"} THEN { "attr", "quoted" } ELSE { "attr" }
U32s == IF Mode \in {"value", "value3"} THEN { << 48 >>, << 52, 48 >> } ELSE IF Mode = "keys" THEN {} ELSE { << 52, 48 >> }
MaxLinks == IF Mode \in {"value", "value3", "value4", "keys"} THEN 1 ELSE IF Mode = "struct" THEN 3 ELSE 2
MaxAttrs == IF Mode = "value4" THEN 1 ELSE IF Mode = "keys" THEN 3 ELSE 2
NLs == IF Mode = "value3" THEN { FALSE } ELSE BOOLEAN
MaxCalls == 24
Faults == IF Mode = "fault"
          THEN { [mode |-> "never", k |-> 0] } \cup { [mode |-> m, k |-> k] : m \in {"once", "from"}, k \in 0 .. MaxCalls }
          ELSE { [mode |-> "never", k |-> 0] }

VARIABLES d, w, fault
vars == << d, w, fault >>

Init == d = << >> /\ fault \in Faults /\ \E nl \in NLs : w = InitWriter(nl)

AttrChoices(n) ==
  LET vals == IF n = 0 THEN Values1 ELSE Values2 IN
  { [key |-> k, kind |-> kd, val |-> v] : k \in Keys, kd \in Kinds, v \in vals }
  \cup { [key |-> k, kind |-> "u32", val |-> v] : k \in Keys, v \in U32s }
  \cup (IF Mode = "fault" THEN { [key |-> << 99, 116 >>, kind |-> "quoted", val |-> << A, 49 >>] } ELSE {})

AddLink == /\ Len(d) < MaxLinks
           /\ \E t \in Targets :
                /\ d' = Append(d, [target |-> t, attrs |-> << >>])
                /\ w' = WLink(w, fault, t)
           /\ UNCHANGED fault
AddAttr == /\ d # << >> /\ Len(d[Len(d)].attrs) < MaxAttrs
           /\ \E a \in AttrChoices(Len(d[Len(d)].attrs)) :
                /\ d' = [d EXCEPT ![Len(d)].attrs = Append(@, a)]
                /\ w' = WAttr(w, fault, a)
           /\ UNCHANGED fault
Next == AddLink \/ AddAttr
Spec == Init /\ [][Next]_vars

\* C18: reports every failure, writes nothing after it, sink holds a prefix of the fault-free output
WriterOk == WriterProps(w, fault, d)
\* the sticky error never returns to "none"
Sticky == [][w.err => w'.err]_vars
\* C16: with a sink that never fails the output parses back to the document
RoundTripOk == fault.mode = "never" => (w.out = WriteDoc(d, w.nl) /\ RoundTrip(d, w.nl))
\* a fault inside the written calls is always reported
Reported == (fault.mode # "never" /\ fault.k < w.calls) => WFinish(w) = "err"

Emit == (EmitOn /\ fault.mode = "never") =>
  CSVWrite("%1$s", << ToJson([d |-> d, nl |-> w.nl, text |-> w.out]) >>, IOEnv.OUT)
=============================================================================
