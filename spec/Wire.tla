-------------------------------- MODULE Wire --------------------------------
(***************************************************************************)
(* RFC 7252 section 3: the CoAP message format.                            *)
(*                                                                         *)
(* A message is a record                                                   *)
(*   [ver, typ, code, mid, tok, opts, pay]                                 *)
(* where opts is a sequence, strictly ascending in option number, of       *)
(* pairs <<num, vals>> with vals the values of that number in order.  An   *)
(* entry may hold the empty list (Packet::clear_option leaves one); it is  *)
(* not part of the wire image.                                             *)
(*                                                                         *)
(* Written from the RFC text; src/packet.rs was not consulted.             *)
(***************************************************************************)
EXTENDS Bytes

MaxValueLen == 65535 + 269      \* largest length the 16-bit extension can state
MaxOptNum   == 65535

(* ---- encoder (3.1) ---------------------------------------------------- *)
Nib(x) == IF x <= 12 THEN x ELSE IF x <= 268 THEN 13 ELSE 14
Ext(x) == IF x <= 12 THEN << >>
          ELSE IF x <= 268 THEN << x - 13 >>
          ELSE BE16(x - 269)
ExtLen(x) == IF x <= 12 THEN 0 ELSE IF x <= 268 THEN 1 ELSE 2

EncOpt(delta, v) == << Nib(delta) * 16 + Nib(Len(v)) >> \o Ext(delta) \o Ext(Len(v)) \o v
OptLen(delta, v) == 1 + ExtLen(delta) + ExtLen(Len(v)) + Len(v)

\* values of one option number: first with delta num - prev, the rest with delta 0
RECURSIVE EncVals(_, _, _)
EncVals(prev, num, vs) ==
  IF vs = << >> THEN << >>
  ELSE EncOpt(num - prev, Head(vs)) \o EncVals(num, num, Tail(vs))

RECURSIVE EncOpts(_, _)
EncOpts(prev, opts) ==
  IF opts = << >> THEN << >>
  ELSE LET num == Head(opts)[1]
           vs  == Head(opts)[2]
       IN IF vs = << >> THEN EncOpts(prev, Tail(opts))
          ELSE EncVals(prev, num, vs) \o EncOpts(num, Tail(opts))

RECURSIVE ValsLen(_, _, _)
ValsLen(prev, num, vs) ==
  IF vs = << >> THEN 0
  ELSE OptLen(num - prev, Head(vs)) + ValsLen(num, num, Tail(vs))

RECURSIVE OptsLen(_, _)
OptsLen(prev, opts) ==
  IF opts = << >> THEN 0
  ELSE LET num == Head(opts)[1]
           vs  == Head(opts)[2]
       IN IF vs = << >> THEN OptsLen(prev, Tail(opts))
          ELSE ValsLen(prev, num, vs) + OptsLen(num, Tail(opts))

\* 3: "the payload ... prefixed by a one-byte Payload Marker"; 4.1: an Empty
\* message has code 0.00 and nothing after the message id (token length 0 is
\* the sender's business; the token is part of the stored state and is sent).
SendsPayload(m) == m.pay # << >> /\ m.code # 0

Encode(m) ==
  << m.ver * 64 + m.typ * 16 + Len(m.tok), m.code >> \o BE16(m.mid) \o m.tok
  \o EncOpts(0, m.opts)
  \o (IF SendsPayload(m) THEN << 255 >> \o m.pay ELSE << >>)

WireLen(m) == 4 + Len(m.tok) + OptsLen(0, m.opts)
              + (IF SendsPayload(m) THEN 1 + Len(m.pay) ELSE 0)

Encodable(m) ==
  \A i \in 1 .. Len(m.opts) :
    \A j \in 1 .. Len(m.opts[i][2]) : Len(m.opts[i][2][j]) <= MaxValueLen

\* what a parser of Encode(m) must return
DropEmpty(opts) == SelectSeq(opts, LAMBDA e : e[2] # << >>)
Norm(m) == [m EXCEPT !.opts = DropEmpty(m.opts),
                     !.pay  = IF m.code = 0 THEN << >> ELSE m.pay]

(* ---- serialiser result (C04) ------------------------------------------ *)
\* limit: [some |-> BOOLEAN, v |-> Nat]
ToBytes(m, limit) ==
  IF ~Encodable(m) THEN [k |-> "err", e |-> "any"]
  ELSE IF limit.some /\ WireLen(m) > limit.v THEN [k |-> "err", e |-> "InvalidPacketLength"]
  ELSE [k |-> "ok", bytes |-> Encode(m)]

(* ---- decoder (3, 3.1) -------------------------------------------------- *)
Bad == [ok |-> FALSE, val |-> 0, next |-> 0]

\* one extended delta/length field whose nibble is n, extension bytes start at i
ReadExt(b, i, n) ==
  IF n <= 12 THEN [ok |-> TRUE, val |-> n, next |-> i]
  ELSE IF n = 13 THEN
       IF i <= Len(b) THEN [ok |-> TRUE, val |-> b[i] + 13, next |-> i + 1] ELSE Bad
  ELSE IF n = 14 THEN
       IF i + 1 <= Len(b) THEN [ok |-> TRUE, val |-> b[i] * 256 + b[i + 1] + 269, next |-> i + 2]
       ELSE Bad
  ELSE Bad                                   \* nibble 15 is reserved (message format error)

AddOpt(acc, num, v) ==
  IF acc # << >> /\ acc[Len(acc)][1] = num
  THEN [acc EXCEPT ![Len(acc)] = << num, Append(acc[Len(acc)][2], v) >>]
  ELSE Append(acc, << num, << v >> >>)

Broken == [ok |-> FALSE, opts |-> << >>, marker |-> 0]

RECURSIVE DecOpts(_, _, _, _)
DecOpts(b, i, num, acc) ==
  IF i > Len(b) THEN [ok |-> TRUE, opts |-> acc, marker |-> 0]
  ELSE IF b[i] = 255 THEN [ok |-> TRUE, opts |-> acc, marker |-> i]
  ELSE LET d == ReadExt(b, i + 1, b[i] \div 16) IN
       IF ~d.ok THEN Broken ELSE
       LET l == ReadExt(b, d.next, b[i] % 16) IN
       IF ~l.ok THEN Broken
       ELSE IF l.next + l.val - 1 > Len(b) THEN Broken
       ELSE IF num + d.val > MaxOptNum THEN Broken
       ELSE DecOpts(b, l.next + l.val, num + d.val,
                    AddOpt(acc, num + d.val, Clip(b, l.next, l.next + l.val - 1)))

NoMsg == [ver |-> 0, typ |-> 0, code |-> 0, mid |-> 0, tok |-> << >>, opts |-> << >>, pay |-> << >>]
Reject == [verdict |-> "must_reject", msg |-> NoMsg, marker |-> 0]

\* Three-valued verdict (C03): must_accept / must_reject / either.  msg is
\* what an accepting parser must return whenever the framing is well formed.
Decode(b) ==
  IF Len(b) < 4 THEN Reject ELSE
  LET tkl == b[1] % 16 IN
  IF tkl > 8 \/ 4 + tkl > Len(b) THEN Reject ELSE
  LET r == DecOpts(b, 5 + tkl, 0, << >>) IN
  IF ~r.ok THEN Reject ELSE
  LET pay == IF r.marker = 0 THEN << >> ELSE Clip(b, r.marker + 1, Len(b))
      msg == [ver |-> b[1] \div 64, typ |-> (b[1] \div 16) % 4, code |-> b[2],
              mid |-> b[3] * 256 + b[4], tok |-> Clip(b, 5, 4 + tkl),
              opts |-> r.opts, pay |-> pay]
      lax == msg.ver # 1
             \/ (r.marker # 0 /\ pay = << >>)       \* marker followed by nothing
             \/ (b[2] = 0 /\ Len(b) > 4)            \* 0.00 with anything after the id
  IN [verdict |-> IF lax THEN "either" ELSE "must_accept", msg |-> msg, marker |-> r.marker]

\* C02: what re-encoding an accepted datagram must give: the input without
\* a trailing lone marker and without marker+payload when the code is 0.00.
Canon(b) ==
  LET d == Decode(b) IN
  IF d.verdict = "must_reject" \/ d.marker = 0 THEN b
  ELSE IF b[2] = 0 \/ d.marker = Len(b) THEN Clip(b, 1, d.marker - 1)
  ELSE b
=============================================================================
