SPECIFICATION Spec
VIEW View
CONSTRAINT Bound
INVARIANT Inv
ACTION_CONSTRAINT StepOk
ACTION_CONSTRAINT Refines
ACTION_CONSTRAINT Emit
CHECK_DEADLOCK FALSE
