SPECIFICATION Spec
INVARIANT ReplyMatches
INVARIANT ReplyUnique
INVARIANT NoEcho
INVARIANT Prepared
INVARIANT Emit
CHECK_DEADLOCK FALSE
