------------------------- MODULE Trace_BlockHandler -------------------------
(***************************************************************************)
(* Trace specification for BlockHandler (C08-C12, C20).                    *)
(*                                                                         *)
(* Every recorded call of intercept_request / intercept_response carries   *)
(* its arguments, outcome, the prepared reply, the rewritten request       *)
(* payload, the cache snapshot (cfg(coap_lite_verif) hook) and the         *)
(* monotonic time before and after the call.  The model keeps the cache    *)
(* with, per entry, the interval in which it was last touched; an entry is *)
(* certainly live, certainly expired or undetermined at a later call, and  *)
(* only certain cases constrain the outcome.                               *)
(*                                                                         *)
(* A call is accepted when it equals the code-shaped operators of          *)
(* BlockHandler.tla on an admissible pre-state.  Otherwise the predicates  *)
(* the listed properties actually pin are evaluated: if none is violated   *)
(* the difference is recorded as drift (never an alarm) and validation     *)
(* continues from the recorded snapshot; if some are, the event is         *)
(* rejected for exactly those properties.                                  *)
(***************************************************************************)
EXTENDS BlockHandler, TraceLib

VARIABLES l, cache, cfg, live, loose, kfs, kftotal, bad, done, drift
vars == << l, cache, cfg, live, loose, kfs, kftotal, bad, done, drift >>

(* ---- recorded values -> model values ---------------------------------------- *)
OptMsg(j) == IF j.some THEN Some(MsgOf(j.v)) ELSE None
EntryOf(j) == [b2 |-> j.b2, cached |-> OptMsg(j.cached), upload |-> j.upload]
SnapKeys(snap) == { snap[i].key : i \in 1 .. Len(snap) }
SnapEntry(snap, k) == EntryOf(snap[CHOOSE i \in 1 .. Len(snap) : snap[i].key = k].e)

\* buffers are compared modulo "no buffer" = "empty buffer"
SameEntry(a, b) == a.b2 = b.b2 /\ a.cached = b.cached /\ BufOf(a) = BufOf(b)

(* ---- expiry with interval clocks (C20) --------------------------------------- *)
CertainlyExpired(c, e) == c.t1 + cfg.ttl < e.t0
\* (an expiry that is not a whole number of milliseconds is recorded as a lower and an upper bound)
CertainlyLive(c, e)    == c.t0 + cfg.ttlLo >= e.t1
PreStates(k, e) ==
  IF k \notin DOMAIN cache THEN { EmptyEntry }
  ELSE IF CertainlyExpired(cache[k], e) THEN { EmptyEntry }
  ELSE IF CertainlyLive(cache[k], e) THEN { cache[k].e }
  ELSE { cache[k].e, EmptyEntry }
\* the pre-state the configured expiry forbids (used only to attribute a rejection to C20)
WrongLiveness(k, e) ==
  IF k \notin DOMAIN cache THEN {}
  ELSE IF CertainlyExpired(cache[k], e) THEN { cache[k].e }
  ELSE IF CertainlyLive(cache[k], e) THEN { EmptyEntry } ELSE {}

(* ---- one recorded call against one pre-state ------------------------------------ *)
Recorded(e, k) ==
  [out |-> e.out, resp |-> OptMsg(e.resp),
   reqpay |-> IF e.op = "ireq" THEN e.reqpay ELSE << >>,
   hasPost |-> k \in SnapKeys(e.snap),
   post |-> IF k \in SnapKeys(e.snap) THEN SnapEntry(e.snap, k) ELSE EmptyEntry]

Expected(e, pre) ==
  IF e.op = "ireq" THEN InterceptRequest(pre, MsgOf(e.req), cfg.M)
  ELSE InterceptResponse(pre, OptMsg(e.app), cfg.M)

SeenSame(x, r) == x.out = r.out /\ x.resp = r.resp /\ x.reqpay = r.reqpay
Exact(x, r) == SeenSame(x, r) /\ (r.hasPost => SameEntry(x.st, r.post))

(* ---- what the properties pin (4.21 of DESIGN.md) --------------------------------- *)
ReplyBlock(r, num) == IF r.resp.some THEN FirstBlock(r.resp.v, num) ELSE None
HasAllOptions(reply, src, except) ==
  \A i \in 1 .. Len(src.opts) : (src.opts[i][1] \notin except /\ src.opts[i][2] # << >>) =>
     (\E j \in 1 .. Len(reply.opts) : reply.opts[j] = src.opts[i])
InBudgetDomain(np) == cfg.M >= np + 28 /\ cfg.M <= 1280

\* C11: a block whose offset would need a jump of more than 16 KiB beyond the buffered data is
\* rejected and leaves the buffered data unchanged
JumpRejected(pre, req, r) ==
  LET rb1 == FirstBlock(req, OPT_BLOCK1) IN
  (rb1.some /\ rb1.v.num # 0 /\ (rb1.v.num + 1) * SizeOf(rb1.v.szx) > BufLen(pre) + MaxReserve) =>
     (r.out.k = "err" /\ BufOf(r.post) = BufOf(pre))

\* C11, "a situation it cannot serve is reported as a handling error": a block that starts at or beyond the end
\* of a non-empty body - the cached one, or the one the application has just produced for a first request that
\* names a later block - does not exist.  Where the specification refuses such a request, so must the code
\* (it must not answer with an empty block, and thereby end somebody's transfer).
BeyondEndOk(e, pre, x, r) ==
  LET req == MsgOf(e.req)
      b2 == FirstBlock(req, OPT_BLOCK2)
      app == OptMsg(e.app) IN
  /\ (e.op = "ireq" /\ x.out.k = "err" /\ b2.some /\ pre.cached.some /\ b2.v.num > 0
        /\ b2.v.num * SizeOf(b2.v.szx) >= Len(pre.cached.v.pay)) => r.out.k # "ok"
  /\ (e.op = "iresp" /\ x.out.k = "err" /\ app.some /\ pre.b2.some /\ pre.b2.v.num > 0
        /\ pre.b2.v.num * SizeOf(pre.b2.v.szx) >= Len(app.v.pay)) => r.out.k # "ok"

\* C11, every call
C11Ok(e, pre, r, hadResp) ==
  /\ r.out.k # "panic"
  /\ OutcomeOk(r.out, hadResp)
  /\ (r.hasPost => GrowthBound(pre, r.post, IF e.op = "ireq" THEN MsgOf(e.req) ELSE [pay |-> << >>]))
  /\ (r.hasPost /\ e.op = "ireq" => JumpRejected(pre, MsgOf(e.req), r))

\* C12, every call: the reply carries the current request's id and token - in the prepared
\* reply and in the datagram a client parses (e.wire is the reply decoded from its encoding)
WireOk(e, r) == (r.resp.some /\ HasField(e, "wire") /\ Encodable(r.resp.v)) =>
                  (e.wire.k = "ok" /\ MsgOf(e.wire.v) = Norm(r.resp.v) /\ e.wire.v.tkl = Len(r.resp.v.tok))
C12Ok(e, r) == /\ (r.out.k = "ok" /\ e.op = "ireq") => ReplyIdentity(MsgOf(e.req), r.resp)
               /\ (r.out.k = "ok" => WireOk(e, r))

ReqSize(m) == NonPayload(m) + (IF m.pay = << >> THEN 0 ELSE 1 + Len(m.pay))

\* C09 on intercept_request
C09Ok(e, pre, x, r) ==
  LET req == MsgOf(e.req)
      rb1 == FirstBlock(req, OPT_BLOCK1)
      ack == ReplyBlock(r, OPT_BLOCK1) IN
  IF e.op # "ireq" \/ x.out.k # "ok" \/ ~NewResponse(req).some THEN TRUE
  ELSE IF rb1.some
  THEN IF rb1.v.more
       THEN \* non-final block: 2.31, not passed on, Block1 echoing the offset, size no larger than the client's
            /\ r.out = OkR(TRUE) /\ r.resp.some /\ r.resp.v.code = CODE_CONTINUE
            \* the buffered upload is the body so far: a later final block is judged against it, so a
            \* wrong intermediate buffer must not be adopted silently
            /\ (r.hasPost => BufOf(r.post) = BufOf(x.st))
            /\ ack.some /\ SizeOf(ack.v.szx) <= SizeOf(rb1.v.szx)
            \* "echoing its number": pinned for budgets that admit the client's block size (C09's quantifier)
            /\ (NonPayload(req) + BlockOptionsMaxLength + SizeOf(rb1.v.szx) <= cfg.M => ack.v.num = rb1.v.num /\ ack.v.szx = rb1.v.szx)
       ELSE \* final block: the application receives the complete body; the reply acknowledges the block
            /\ r.out.k = "ok" /\ r.reqpay = x.reqpay /\ ack.some
            /\ (x.out = OkR(FALSE) => r.out = OkR(FALSE))
  ELSE \* no Block1 option: the 4.13 rule is three-valued
       LET is413 == r.out = OkR(TRUE) /\ r.resp.some /\ r.resp.v.code = CODE_TOO_LARGE IN
       \* size of the request as received: its stored payload counts whatever the code
       \* (the hint is about the size: it names block 0, whatever the key saw before)
       /\ (ReqSize(req) > cfg.M /\ InBudgetDomain(NonPayload(req)) => is413 /\ ack.some /\ ack.v.num = 0)
       /\ (ReqSize(req) + 32 <= cfg.M => ~is413)

\* C08 on intercept_request: follow-up blocks are served from the cache
C08ReqOk(e, pre, x, r) ==
  LET req == MsgOf(e.req)
      b2 == FirstBlock(req, OPT_BLOCK2)
      rb1 == FirstBlock(req, OPT_BLOCK1) IN
  IF e.op # "ireq" \/ rb1.some \/ ~NewResponse(req).some \/ x.out.k # "ok" THEN TRUE
  ELSE IF b2.some /\ pre.cached.some
  THEN LET body == pre.cached.v.pay
           sz == SizeOf(b2.v.szx)
           rb == ReplyBlock(r, OPT_BLOCK2) IN
       /\ r.out = OkR(TRUE) /\ r.resp.some
       /\ r.resp.v.pay = Chunk(body, b2.v.num, sz)
       /\ rb.some /\ rb.v = [num |-> b2.v.num, more |-> MoreAfter(body, b2.v.num, sz), szx |-> b2.v.szx]
       /\ HasAllOptions(r.resp.v, pre.cached.v, { OPT_BLOCK2 })
       /\ (r.hasPost => (r.post.cached.some <=> MoreAfter(body, b2.v.num, sz)))
  ELSE \* nothing cached (or no Block2): the request reaches the application unless it is too large
       x.out = OkR(FALSE) => r.out = OkR(FALSE)

\* C08 / C10 on intercept_response
RespOk(e, pre, x, r) ==
  LET app == OptMsg(e.app) IN
  IF e.op # "iresp" \/ ~app.some \/ HasEntry(app.v.opts, OPT_BLOCK2) \/ ~InBudgetDomain(NonPayload(app.v)) \/ x.out.k # "ok" THEN TRUE
  ELSE LET rb == ReplyBlock(r, OPT_BLOCK2)
           off == IF pre.b2.some THEN pre.b2.v.num * SizeOf(pre.b2.v.szx) ELSE 0
           body == app.v.pay IN
       /\ r.out.k = "ok" /\ r.resp.some
       /\ IF rb.some
          THEN LET sz == SizeOf(rb.v.szx) IN
               /\ rb.v.szx <= 6
               /\ (pre.b2.some => sz <= SizeOf(pre.b2.v.szx))
               /\ WireLen(r.resp.v) <= cfg.M
               /\ ((pre.b2.some /\ pre.b2.v.szx <= 6 /\ NonPayload(app.v) + 6 + SizeOf(pre.b2.v.szx) + 32 <= cfg.M)
                      => rb.v.szx = pre.b2.v.szx)
               \* C08 quantifies over transfers that start at block 0; a first request naming a
               \* later block is outside it (see the observation in MC_Negotiate)
               /\ (off = 0 => rb.v.num = 0)
               /\ r.resp.v.pay = Chunk(body, rb.v.num, sz)
               /\ rb.v.more = MoreAfter(body, rb.v.num, sz)
               /\ HasAllOptions(r.resp.v, app.v, { OPT_BLOCK2 })
               \* cached for follow-up blocks iff more remain; a reply that completes in this block leaves
               \* the entry as it was (an unfinished earlier transfer stays until it expires, C20)
               /\ (r.hasPost /\ rb.v.more => r.post.cached = app)
               /\ (r.hasPost /\ ~rb.v.more => (~r.post.cached.some \/ r.post.cached = pre.cached))
          ELSE \* left unfragmented: unchanged, fits, and nothing of the body is missing
               /\ r.resp = app /\ WireLen(app.v) <= cfg.M /\ off = 0
               /\ (r.hasPost => ~r.post.cached.some \/ r.post.cached = pre.cached)

\* C10 on Block1 acknowledgements: the client's next upload block must fit
C10ReqOk(e, pre, x, r) ==
  LET req == MsgOf(e.req)
      rb1 == FirstBlock(req, OPT_BLOCK1)
      ack == ReplyBlock(r, OPT_BLOCK1) IN
  IF e.op # "ireq" \/ ~rb1.some \/ ~InBudgetDomain(NonPayload(req)) \/ r.out.k # "ok" \/ ~ack.some THEN TRUE
  ELSE /\ ack.v.szx <= 6 \/ (NonPayload(req) + 1 + SizeOf(ack.v.szx) <= cfg.M /\ ack.v.szx <= rb1.v.szx)
       /\ SizeOf(ack.v.szx) <= SizeOf(rb1.v.szx)
       /\ NonPayload(req) + 1 + SizeOf(ack.v.szx) <= cfg.M
       /\ ((rb1.v.szx <= 6 /\ NonPayload(req) + 1 + SizeOf(rb1.v.szx) + 32 <= cfg.M) => ack.v.szx = rb1.v.szx)

\* C10 on follow-up blocks served from the cache: "the message carrying a block of that size ... encodes
\* within the configured maximum message size" holds for every block of the transfer, whatever its
\* number (the Block2 option grows with it) - pinned whenever the client's size is one the budget admits
\* for this reply (the reserve of 12 bytes covers the option and the marker)
\* bsz = the size the handler itself chose when it fragmented the cached response (tracked per key): a
\* client that keeps to that size (or a smaller one) and to its token length gets blocks that fit, too
C10FollowOk(e, pre, r, bsz) ==
  LET req == MsgOf(e.req)
      b2 == FirstBlock(req, OPT_BLOCK2) IN
  (e.op = "ireq" /\ b2.some /\ pre.cached.some /\ r.out = OkR(TRUE) /\ r.resp.some /\ b2.v.szx <= 6
     /\ \/ NonPayload([pre.cached.v EXCEPT !.tok = req.tok]) + BlockOptionsMaxLength + SizeOf(b2.v.szx) <= cfg.M
        \/ (bsz.some /\ b2.v.szx <= bsz.v /\ Len(req.tok) <= Len(pre.cached.v.tok) /\ InBudgetDomain(NonPayload(pre.cached.v))))
  => WireLen(r.resp.v) <= cfg.M

\* the client's Block2 preference of this exchange is what intercept_response must honour (C10):
\* the remembered value is judged here, so that a wrong one is never adopted silently
\* (after either entry point: intercept_response does not forget it either - a second reply to the same
\* request, a notification say, must still honour it)
HintOk(e, x, r) == (r.hasPost /\ x.out.k = "ok" /\ r.out.k = "ok") => r.post.b2 = x.st.b2

\* C09: "its response carries the Block1 acknowledgement" - the acknowledgement intercept_request placed
\* on the prepared reply is still there after intercept_response, also when the reply leaves in blocks
AckKept(e, r) ==
  LET app == OptMsg(e.app) IN
  (e.op = "iresp" /\ app.some /\ HasEntry(app.v.opts, OPT_BLOCK1) /\ r.out.k = "ok") =>
     (r.resp.some /\ ValsOf(r.resp.v.opts, OPT_BLOCK1) = ValsOf(app.v.opts, OPT_BLOCK1))

\* C20, retention: whatever the call returns, state that the specification keeps for this key is not
\* dropped by it (an upload buffer or a cached response disappearing on an error path, or on a request
\* that cannot be answered, is state lost while it is still fresh)
RetainOk(x, r) ==
  (r.hasPost /\ r.out.k # "panic") =>
     /\ (x.st.upload.some => r.post.upload.some)
     /\ (x.st.cached.some => r.post.cached.some)

Violated(e, pre, x, r, bsz) ==
  LET hadResp == IF e.op = "ireq" THEN NewResponse(MsgOf(e.req)).some ELSE e.app.some IN
  (IF C11Ok(e, pre, r, hadResp) /\ BeyondEndOk(e, pre, x, r) THEN {} ELSE {"C11"})
  \cup (IF C12Ok(e, r) THEN {} ELSE {"C12"})
  \cup (IF r.out.k = "panic" \/ (C09Ok(e, pre, x, r) /\ AckKept(e, r)) THEN {} ELSE {"C09"})
  \cup (IF r.out.k = "panic" \/ C08ReqOk(e, pre, x, r) THEN {} ELSE {"C08"})
  \cup (IF r.out.k = "panic" \/ RespOk(e, pre, x, r) THEN {} ELSE {"C08", "C10"})
  \cup (IF r.out.k = "panic" \/ (C10ReqOk(e, pre, x, r) /\ C10FollowOk(e, pre, r, bsz)) THEN {} ELSE {"C10"})
  \cup (IF HintOk(e, x, r) THEN {} ELSE {"C08", "C10"})
  \cup (IF RetainOk(x, r) THEN {} ELSE {"C20"})

(* ---- other keys (C12 isolation, C20 retention / purge) --------------------------- *)
OthersOk(e, k) ==
  loose \/
  /\ \A q \in SnapKeys(e.snap) \ { k } : q \in DOMAIN cache /\ SameEntry(SnapEntry(e.snap, q), cache[q].e)
  /\ \A q \in DOMAIN cache \ { k } : (CertainlyLive(cache[q], e) /\ cache[q].t0 + cfg.ttlLo >= e.t1 + 50) => q \in SnapKeys(e.snap)
  /\ \A q \in DOMAIN cache \ { k } : CertainlyExpired(cache[q], e) => q \notin SnapKeys(e.snap)

(* ---- known finding D6b: a duplicated final Block1 block reaches the application again ---- *)
FinalMarker(req) == LET rb1 == FirstBlock(req, OPT_BLOCK1) IN
                    [num |-> rb1.v.num, szx |-> rb1.v.szx, pay |-> req.pay]
IsDupFinal(e, k) ==
  /\ e.op = "ireq" /\ k \in DOMAIN cache /\ cache[k].done1.some
  /\ LET req == MsgOf(e.req)
         rb1 == FirstBlock(req, OPT_BLOCK1) IN
     rb1.some /\ ~rb1.v.more /\ cache[k].done1.v = FinalMarker(req)

(* ---- state update ------------------------------------------------------------------ *)
NewDone1(e, x, k) ==
  IF e.op # "ireq" THEN None
  ELSE LET req == MsgOf(e.req)
           rb1 == FirstBlock(req, OPT_BLOCK1) IN
       IF rb1.some /\ ~rb1.v.more /\ x.out = OkR(FALSE) THEN Some(FinalMarker(req))
       \* a repeat of the completed final block that was answered without the application (from the Block2
       \* cache of its large reply) does not end the run of repeats
       ELSE IF rb1.some /\ ~rb1.v.more /\ k \in DOMAIN cache /\ cache[k].done1 = Some(FinalMarker(req)) THEN cache[k].done1
       ELSE None

Bsz(k) == IF k \in DOMAIN cache THEN cache[k].bsz ELSE None
\* the size exponent of the Block2 option on a reply intercept_response has just fragmented
NewBsz(k, e) ==
  IF e.op = "iresp" /\ e.resp.some
  THEN LET rb == FirstBlock(MsgOf(e.resp.v), OPT_BLOCK2) IN IF rb.some /\ rb.v.more THEN Some(rb.v.szx) ELSE Bsz(k)
  ELSE Bsz(k)
Touch(k, entry, e, d1) ==
  LET keep == { q \in DOMAIN cache : ~CertainlyExpired(cache[q], e) } IN
  [q \in keep \cup { k } |->
     IF q = k THEN [e |-> entry, t0 |-> e.t0, t1 |-> e.t1, bsz |-> NewBsz(k, e),
                    done1 |-> IF e.op = "ireq" THEN d1
                              ELSE IF k \in DOMAIN cache THEN cache[k].done1 ELSE None]
     ELSE cache[q]]

Init == /\ l = 1 /\ cache = << >> /\ cfg = [M |-> 1152, ttl |-> 120000, ttlLo |-> 120000] /\ live = FALSE /\ loose = FALSE
        /\ kfs = 0 /\ kftotal = 0 /\ bad = << >> /\ done = FALSE /\ drift = 0

RejectEv(props, why) == bad' = AddBad(bad, BadEntry(l, props, why))

StepCall(e) ==
  LET k == KeyOf(MsgOf(e.req), e.ep)
      r == Recorded(e, k)
      pres == PreStates(k, e)
      exact == { p \in pres : Exact(Expected(e, p), r) } IN
  \* equality with the code-shaped operators only tracks the state; the predicates the
  \* properties pin are evaluated on every call and decide
  IF exact # {} /\ (\E p \in exact : Violated(e, p, Expected(e, p), r, Bsz(k)) = {})
  THEN LET p == CHOOSE p \in exact : Violated(e, p, Expected(e, p), r, Bsz(k)) = {}
           x == Expected(e, p) IN
       /\ cache' = Touch(k, x.st, e, NewDone1(e, x, k))
       /\ UNCHANGED << drift, live >>
       /\ IF IsDupFinal(e, k) /\ x.out = OkR(FALSE)
          THEN \* C09: an identical final block repeated in a row must not reach the application again
               \* occurrences of a known finding are counted; only the first few are listed, so that
               \* they never crowd other rejections out of the (capped) list
               /\ bad' = IF kftotal < 3
                         THEN Append(bad, [i |-> l, props |-> {"C09"}, why |-> "duplicated final Block1 block passed to the application again",
                                           sig |-> "dup-final-block-redelivered"])
                         ELSE bad
               /\ kfs' = kfs + 1 /\ kftotal' = kftotal + 1
          ELSE /\ kfs' = kfs /\ UNCHANGED kftotal
               /\ IF OthersOk(e, k) THEN UNCHANGED bad
                  ELSE RejectEv({"C12", "C20"}, "state of another key changed, or an entry was kept/purged against the configured expiry")
  \* what the caller sees (outcome, reply, request payload) is exactly what a pre-state the expiry forbids
  \* would produce, and what no admissible pre-state produces: state was used after its expiry, or lost
  \* before it - wherever the implementation keeps it
  ELSE LET wrong == { p \in WrongLiveness(k, e) \ pres :
                        /\ SeenSame(Expected(e, p), r)
                        /\ \A q \in pres : ~SeenSame(Expected(e, q), r) }
           p == CHOOSE p \in pres : TRUE
           x == Expected(e, p)
           v == UNION { Violated(e, q, Expected(e, q), r, Bsz(k)) : q \in pres }
           \* a call that also disturbed another key's entry is reported under C12 as well
           vAll == (IF \E q \in pres : Violated(e, q, Expected(e, q), r, Bsz(k)) = {} THEN {} ELSE v)
                   \cup (IF OthersOk(e, k) THEN {} ELSE {"C12"}) IN
       /\ kfs' = kfs /\ UNCHANGED kftotal
       /\ IF wrong # {}
          THEN \* behaves as on the forbidden pre-state: a C20 symptom, and whatever the pinned predicates say
               \* ... and, when this key's live state vanished while other keys were in use since, a transfer
               \* that was disturbed by the others (C12)
               /\ RejectEv({"C20"} \cup vAll \cup (IF k \in DOMAIN cache /\ \E q \in DOMAIN cache \ { k } : cache[q].t1 >= cache[k].t1 THEN {"C12"} ELSE {}),
                           "the call behaved as if the entry had expired / been kept against the configured expiry, or lost its state")
               /\ live' = FALSE /\ UNCHANGED << cache, drift >>
          ELSE IF vAll # {}
          THEN /\ RejectEv(vAll, "outcome differs from BlockHandler.tla in a way the property pins")
               /\ live' = FALSE /\ UNCHANGED << cache, drift >>
          ELSE \* a difference the properties leave free: informational, continue from the recorded state
               /\ drift' = drift + 1 /\ UNCHANGED << bad, live >>
               /\ cache' = Touch(k, IF r.hasPost THEN r.post ELSE x.st, e, None)

StepSummary(e) ==
  CASE e.op = "xfer2" ->
         IF e.done /\ e.assembled = e.body /\ e.app_calls = 1 /\ e.after = OkR(FALSE) /\ e.aborted = "" THEN UNCHANGED bad
         ELSE RejectEv({"C08"}, "download: reassembled body / application consulted once / entry released")
    [] e.op = "xfer1" ->
         IF e.aborted = "" /\ Len(e.delivered) = 1 + kfs /\ e.delivered[1] = e.body THEN UNCHANGED bad
         ELSE RejectEv({"C09"}, "upload: the application must receive the complete body exactly once")
    [] e.op = "solo_cmp" ->
         IF e.solo = e.inter THEN UNCHANGED bad
         ELSE RejectEv({"C12"}, "a transfer observed other responses in the interleaving than when run alone")
    [] e.op = "reclaim" ->
         IF e.live_after_use = 0 /\ e.held_while_fresh > 0 THEN UNCHANGED bad
         ELSE RejectEv({"C20"}, "expired transfer state was not reclaimed on the next use of the handler")
    [] e.op = "retain" ->
         IF e.live_after_crowd = e.live_before_crowd /\ e.live_before_crowd > 0 THEN UNCHANGED bad
         ELSE RejectEv({"C20"}, "live transfer state was dropped before its expiry while other keys passed through the handler")

Step ==
  /\ l <= NRec /\ l' = l + 1 /\ UNCHANGED done
  /\ LET e == Rec[l] IN
     IF e.op = "reset"
     THEN /\ cache' = << >> /\ cfg' = [M |-> e.M, ttl |-> e.ttl, ttlLo |-> IF HasField(e, "ttl_lo") THEN e.ttl_lo ELSE e.ttl] /\ live' = TRUE /\ loose' = FALSE /\ kfs' = 0
          /\ UNCHANGED << bad, drift, kftotal >>
     ELSE IF e.op = "sleep" THEN UNCHANGED << cache, cfg, live, loose, kfs, kftotal, bad, drift >>
     ELSE IF e.op = "unlogged" THEN loose' = TRUE /\ UNCHANGED << cache, cfg, live, kfs, kftotal, bad, drift >>
     ELSE IF e.op \in {"ireq", "iresp"}
     THEN /\ UNCHANGED << cfg, loose >>
          /\ IF live THEN StepCall(e) ELSE UNCHANGED << cache, live, kfs, kftotal, bad, drift >>
     ELSE /\ UNCHANGED << cache, cfg, live, loose, kfs, kftotal, drift >>
          /\ IF live THEN StepSummary(e) ELSE UNCHANGED bad

Finish == l = NRec + 1 /\ ~done /\ done' = TRUE /\ UNCHANGED << l, cache, cfg, live, loose, kfs, kftotal, bad, drift >>
          /\ WriteResult(bad, [episodes |-> Cardinality({i \in 1 .. NRec : Rec[i].op = "reset"}), drift |-> drift,
                               known |-> [sig |-> "dup-final-block-redelivered", n |-> kftotal]])

Next == Step \/ Finish
Spec == Init /\ [][Next]_vars
=============================================================================
