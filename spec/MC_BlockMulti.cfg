SPECIFICATION Spec
VIEW View
CONSTRAINT Bound
INVARIANT NoViolation
ACTION_CONSTRAINT Emit
CHECK_DEADLOCK FALSE
