----------------------------- MODULE LinkFormat -----------------------------
(***************************************************************************)
(* RFC 6690 link format as coap_lite::link_format handles it.              *)
(* Text is a sequence of Unicode code points (naturals).                   *)
(*                                                                         *)
(*  - the writer (LinkFormatWrite / LinkAttributeWrite) as a state machine *)
(*    over a sink that may fail at any write call;                         *)
(*  - the three parsing iterators (links, attributes, Unquote) as          *)
(*    functions from a position to the next item, so that offsets,         *)
(*    termination and fusing can be stated;                                *)
(*  - WriteDoc / ParseDoc and the round trip (C16).                        *)
(***************************************************************************)
EXTENDS Naturals, Sequences, FiniteSets

LT == 60      \* <
GT == 62      \* >
SEMI == 59    \* ;
COMMA == 44   \* ,
QUOTE == 34   \* "
BSL == 92     \* \
EQ == 61      \* =
SP == 32
LF == 10
CR == 13

Min2(a, b) == IF a <= b THEN a ELSE b

\* char::is_ascii_whitespace: space, tab, LF, FF, CR
IsAsciiWs(c) == c \in { 32, 9, 10, 12, 13 }
\* char::is_whitespace (Unicode White_Space)
IsWs(c) == c \in { 9, 10, 11, 12, 13, 32, 133, 160, 5760, 8232, 8233, 8239, 8287, 12288 } \/ c \in 8192 .. 8202
IsAsciiAlnum(c) == c \in 48 .. 57 \/ c \in 65 .. 90 \/ c \in 97 .. 122

Sub(s, a, b) == IF a > b THEN << >> ELSE SubSeq(s, a, b)

(* ======================= parsing iterators =============================== *)
(* All scanners work on s[1..n] (n <= Len(s)) and return positions.         *)

RECURSIVE SkipAsciiWs(_, _, _)
SkipAsciiWs(s, i, n) == IF i <= n /\ IsAsciiWs(s[i]) THEN SkipAsciiWs(s, i + 1, n) ELSE i

\* index of the first c in s[i..n], n + 1 if none
RECURSIVE FindCh(_, _, _, _)
FindCh(s, i, n, c) == IF i > n THEN n + 1 ELSE IF s[i] = c THEN i ELSE FindCh(s, i + 1, n, c)

\* i is just after an opening quote: position just after the closing quote (a
\* backslash skips the next character), n + 1 if the string is not terminated
RECURSIVE ScanQuoted(_, _, _)
ScanQuoted(s, i, n) ==
  IF i > n THEN n + 1
  ELSE IF s[i] = QUOTE THEN i + 1
  ELSE IF s[i] = BSL THEN ScanQuoted(s, Min2(i + 2, n + 1), n)
  ELSE ScanQuoted(s, i + 1, n)

\* position just after the first sep outside quotes in s[i..n]; n + 1 if none
RECURSIVE ScanTo(_, _, _, _)
ScanTo(s, i, n, sep) ==
  IF i > n THEN n + 1
  ELSE IF s[i] = sep THEN i + 1
  ELSE IF s[i] = QUOTE THEN ScanTo(s, ScanQuoted(s, i + 1, n), n, sep)
  ELSE ScanTo(s, i + 1, n, sep)

\* trimming a range [a, b] of s: returns the new bound
RECURSIVE TrimEndCh(_, _, _, _)
TrimEndCh(s, a, b, c) == IF b >= a /\ s[b] = c THEN TrimEndCh(s, a, b - 1, c) ELSE b
RECURSIVE TrimStartCh(_, _, _, _)
TrimStartCh(s, a, b, c) == IF a <= b /\ s[a] = c THEN TrimStartCh(s, a + 1, b, c) ELSE a
RECURSIVE TrimEndWs(_, _, _)
TrimEndWs(s, a, b) == IF b >= a /\ IsWs(s[b]) THEN TrimEndWs(s, a, b - 1) ELSE b
RECURSIVE TrimStartWs(_, _, _)
TrimStartWs(s, a, b) == IF a <= b /\ IsWs(s[a]) THEN TrimStartWs(s, a + 1, b) ELSE a

\* a slice of the input: [a, b] (empty when a > b)
Slice(a, b) == [a |-> a, b |-> IF b < a THEN a - 1 ELSE b]
SliceText(s, sl) == Sub(s, sl.a, sl.b)
SliceLen(sl) == sl.b - sl.a + 1

(* ---- LinkFormatParser::next: the iterator state is the position i -------- *)
\* result: [k |-> "none" | "err" | "link", target, attrs (slices), next]
NextLink(s, i) ==
  LET n == Len(s) IN
  IF i > n THEN [k |-> "none", next |-> n + 1]
  ELSE LET p == SkipAsciiWs(s, i, n) IN
       IF p > n THEN [k |-> "none", next |-> n + 1]
       ELSE IF s[p] # LT THEN [k |-> "err", next |-> n + 1]
       ELSE LET g  == FindCh(s, p + 1, n, GT)
                a0 == Min2(g + 1, n + 1)
                e  == ScanTo(s, a0, n, COMMA)
                b1 == TrimEndCh(s, a0, e - 1, COMMA)
                b2 == TrimEndCh(s, a0, b1, SEMI)
                a2 == TrimStartCh(s, a0, b2, SEMI)
            IN [k |-> "link", target |-> Slice(p + 1, g - 1), attrs |-> Slice(a2, b2), next |-> e]

(* ---- LinkAttributeParser::next over the range [i, b] ---------------------- *)
\* result: [k |-> "none" | "attr", key, val (slices), next]
NextAttr(s, i, b) ==
  IF i > b THEN [k |-> "none", next |-> b + 1]
  ELSE LET j  == ScanTo(s, i, b, SEMI)
           e1 == TrimEndCh(s, i, j - 1, SEMI)
           q  == FindCh(s, i, e1, EQ)
           ke == IF q <= e1 THEN q - 1 ELSE e1
           ka == TrimStartWs(s, i, ke)
           kb == TrimEndWs(s, ka, ke)
           va0 == IF q <= e1 THEN q + 1 ELSE e1 + 1
           va == TrimStartWs(s, va0, e1)
           vb == TrimEndWs(s, va, e1)
       IN [k |-> "attr", key |-> Slice(ka, kb), val |-> Slice(va, vb), next |-> j]

(* ---- Unquote: character-by-character ------------------------------------- *)
RECURSIVE UnqQ(_, _, _)
UnqQ(s, i, b) ==
  IF i > b THEN << >>
  ELSE IF s[i] = QUOTE THEN << >>
  ELSE IF s[i] = BSL THEN (IF i + 1 > b THEN << >> ELSE << s[i + 1] >> \o UnqQ(s, i + 2, b))
  ELSE << s[i] >> \o UnqQ(s, i + 1, b)
UnquoteSlice(s, sl) ==
  IF sl.a > sl.b THEN << >>
  ELSE IF s[sl.a] # QUOTE THEN Sub(s, sl.a, sl.b)
  ELSE UnqQ(s, sl.a + 1, sl.b)
Unquote(v) == UnquoteSlice(v, Slice(1, Len(v)))

(* ---- whole-input parse: the items the iterators yield, with offsets ------- *)
RECURSIVE AttrItems(_, _, _)
AttrItems(s, i, b) ==
  LET r == NextAttr(s, i, b) IN
  IF r.k = "none" THEN << >> ELSE << [key |-> r.key, val |-> r.val] >> \o AttrItems(s, r.next, b)

RECURSIVE LinkItems(_, _)
LinkItems(s, i) ==
  LET r == NextLink(s, i) IN
  IF r.k = "none" THEN << >>
  ELSE IF r.k = "err" THEN << [k |-> "err"] >>
  ELSE << [k |-> "link", target |-> r.target, attrs |-> r.attrs,
           items |-> AttrItems(s, r.attrs.a, r.attrs.b)] >> \o LinkItems(s, r.next)

Items(s) == LinkItems(s, 1)

\* content view: text of targets, keys, unquoted values
ContentOf(s, it) ==
  [i \in 1 .. Len(it) |->
     IF it[i].k = "err" THEN [k |-> "err"]
     ELSE [k |-> "link", target |-> SliceText(s, it[i].target),
           attrs |-> [j \in 1 .. Len(it[i].items) |->
                        [key |-> SliceText(s, it[i].items[j].key),
                         val |-> UnquoteSlice(s, it[i].items[j].val)]]]]
ParseDoc(s) == ContentOf(s, Items(s))

(* ---- C17 predicates on one parse run ------------------------------------- *)
InInput(s, sl) == SliceLen(sl) = 0 \/ (1 <= sl.a /\ sl.b <= Len(s))
Substrings(s, it) ==
  \A i \in 1 .. Len(it) : it[i].k = "link" =>
     /\ InInput(s, it[i].target) /\ InInput(s, it[i].attrs)
     /\ \A j \in 1 .. Len(it[i].items) : InInput(s, it[i].items[j].key) /\ InInput(s, it[i].items[j].val)
\* non-empty slices appear in left-to-right order; attribute slices lie inside their link's attribute extent
LeftToRight(s, it) ==
  /\ \A i \in 1 .. Len(it) - 1 : (it[i].k = "link" /\ it[i + 1].k = "link") =>
        /\ it[i].target.a < it[i + 1].target.a
        /\ (SliceLen(it[i].attrs) > 0 => it[i].attrs.b < it[i + 1].target.a)
  /\ \A i \in 1 .. Len(it) : it[i].k = "link" =>
        /\ (SliceLen(it[i].attrs) > 0 => it[i].target.b < it[i].attrs.a)
        /\ \A j \in 1 .. Len(it[i].items) :
             LET x == it[i].items[j] IN
             /\ (SliceLen(x.key) > 0 => it[i].attrs.a <= x.key.a /\ x.key.b <= it[i].attrs.b)
             /\ (SliceLen(x.val) > 0 => it[i].attrs.a <= x.val.a /\ x.val.b <= it[i].attrs.b)
             /\ (SliceLen(x.key) > 0 /\ SliceLen(x.val) > 0 => x.key.b < x.val.a)
             /\ (j < Len(it[i].items) =>
                   LET y == it[i].items[j + 1] IN
                   \A u \in {x.key, x.val} : \A w \in {y.key, y.val} :
                      (SliceLen(u) > 0 /\ SliceLen(w) > 0) => u.b < w.a)
FusedAfterError(it) == \A i \in 1 .. Len(it) : it[i].k = "err" => i = Len(it)
\* the position strictly advances on every yielded item (termination)
Advances(s) ==
  /\ \A i \in 1 .. Len(s) : LET r == NextLink(s, i) IN r.k = "link" => r.next > i
  /\ \A a \in 1 .. Len(s) : \A b \in a .. Len(s) : LET r == NextAttr(s, a, b) IN r.k = "attr" => r.next > a

(* ======================= writer ========================================== *)
(* A document: sequence of [target, attrs : Seq([key, kind, val])],          *)
(* kind in {"attr", "quoted", "u32"} (the three LinkAttributeWrite methods;  *)
(* for "u32" val is the decimal text).                                       *)

NeedsQuote(v) == \E i \in 1 .. Len(v) : ~IsAsciiAlnum(v[i])
RECURSIVE Esc(_)
Esc(v) == IF v = << >> THEN << >>
          ELSE (IF Head(v) \in { QUOTE, BSL } THEN << BSL, Head(v) >> ELSE << Head(v) >>) \o Esc(Tail(v))
Quoted(a) == a.kind = "quoted" \/ (a.kind = "attr" /\ NeedsQuote(a.val))

\* the write calls one method issues, as a sequence of text chunks (code-shaped split)
RECURSIVE EscChunks(_)
EscChunks(v) == IF v = << >> THEN << >>
                ELSE (IF Head(v) \in { QUOTE, BSL } THEN << << BSL >>, << Head(v) >> >> ELSE << << Head(v) >> >>)
                     \o EscChunks(Tail(v))
LinkChunks(first, nl, target) ==
  (IF first THEN << >> ELSE << << COMMA >> >> \o (IF nl THEN << << LF, CR >> >> ELSE << >>))
  \o << << LT >>, target, << GT >> >>
AttrChunks(a) ==
  << << SEMI >>, a.key, << EQ >> >>
  \o (IF Quoted(a) THEN << << QUOTE >> >> \o EscChunks(a.val) \o << << QUOTE >> >> ELSE << a.val >>)

RECURSIVE Flatten(_)
Flatten(chunks) == IF chunks = << >> THEN << >> ELSE Head(chunks) \o Flatten(Tail(chunks))

\* writer + sink state: out = what the sink holds, err = sticky error, first = no link written
\* yet, nl = newline option, calls = sink write calls issued so far, after = calls issued after
\* the first failure (must stay 0), failed = some call failed.
\* fault = [mode |-> "never" | "once" | "from", k |-> index of the (first) failing call, 0-based]
InitWriter(nl) == [out |-> << >>, err |-> FALSE, first |-> TRUE, nl |-> nl, calls |-> 0, after |-> 0, failed |-> FALSE]
SinkFails(fault, idx) == \/ fault.mode = "once" /\ idx = fault.k
                         \/ fault.mode = "from" /\ idx >= fault.k
\* one guarded write: skipped when the error is set; otherwise one sink call
SinkWrite(w, fault, text) ==
  IF w.err THEN w
  ELSE IF SinkFails(fault, w.calls)
       THEN [w EXCEPT !.err = TRUE, !.failed = TRUE, !.calls = @ + 1, !.after = IF w.failed THEN @ + 1 ELSE @]
       ELSE [w EXCEPT !.out = @ \o text, !.calls = @ + 1, !.after = IF w.failed THEN @ + 1 ELSE @]
RECURSIVE EmitAll(_, _, _)
EmitAll(w, fault, chunks) == IF chunks = << >> THEN w ELSE EmitAll(SinkWrite(w, fault, Head(chunks)), fault, Tail(chunks))

WLink(w, fault, target) == [EmitAll(w, fault, LinkChunks(w.first, w.nl, target)) EXCEPT !.first = FALSE]
WAttr(w, fault, a) == EmitAll(w, fault, AttrChunks(a))
WFinish(w) == IF w.err THEN "err" ELSE "ok"

\* fault-free text of a document
AttrText(a) == Flatten(AttrChunks(a))
RECURSIVE AttrsText(_)
AttrsText(as) == IF as = << >> THEN << >> ELSE AttrText(Head(as)) \o AttrsText(Tail(as))
LinkText(lk) == << LT >> \o lk.target \o << GT >> \o AttrsText(lk.attrs)
RECURSIVE DocText(_, _, _)
DocText(d, nl, first) ==
  IF d = << >> THEN << >>
  ELSE (IF first THEN << >> ELSE << COMMA >> \o (IF nl THEN << LF, CR >> ELSE << >>))
       \o LinkText(Head(d)) \o DocText(Tail(d), nl, FALSE)
WriteDoc(d, nl) == DocText(d, nl, TRUE)

\* what parsing must give back (C16)
DocContent(d) == [i \in 1 .. Len(d) |->
                    [k |-> "link", target |-> d[i].target,
                     attrs |-> [j \in 1 .. Len(d[i].attrs) |-> [key |-> d[i].attrs[j].key, val |-> d[i].attrs[j].val]]]]
RoundTrip(d, nl) == ParseDoc(WriteDoc(d, nl)) = DocContent(d)

IsPrefix(p, t) == Len(p) <= Len(t) /\ p = SubSeq(t, 1, Len(p))

\* C18 on a writer state reached by writing document d under a fault
WriterProps(w, fault, d) ==
  /\ (w.err <=> w.failed)                                   \* FinishReports
  /\ w.after = 0                                            \* NoWriteAfterFailure
  /\ IsPrefix(w.out, WriteDoc(d, w.nl))                     \* Prefix
  /\ (~w.failed => w.out = WriteDoc(d, w.nl))               \* complete when the sink never fails
=============================================================================
