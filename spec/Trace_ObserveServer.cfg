SPECIFICATION Spec
INVARIANT Inv
POSTCONDITION Consumed
CHECK_DEADLOCK FALSE
