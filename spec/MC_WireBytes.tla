---------------------------- MODULE MC_WireBytes ----------------------------
(***************************************************************************)
(* C02 / C03 on the specification, and generator of decode vectors.        *)
(* The state is a datagram: one of a set of headers followed by a suffix   *)
(* over a boundary alphabet, grown one byte at a time.                      *)
(* Environment: DEPTH (max suffix length), OUT (vector file, optional),    *)
(* HDRS ("all" or a 1-based index into Headers, to split the run).         *)
(***************************************************************************)
EXTENDS Wire, TLC, IOUtils, Json, CSV

Depth == atoi(IOEnv.DEPTH)
EmitOn == "OUT" \in DOMAIN IOEnv

\* first byte, code, id hi, id lo, token bytes
Headers == <<
  << 64, 1, 18, 52 >>,                         \* v1 CON TKL0 GET
  << 65, 1, 0, 0, 170 >>,                      \* TKL 1
  << 72, 2, 255, 255, 1, 2, 3, 4, 5, 6, 7, 8 >>, \* TKL 8
  << 73, 1, 0, 1, 1, 2, 3, 4, 5, 6, 7, 8, 9 >>,  \* TKL 9 (reserved)
  << 79, 1, 0, 1 >>,                           \* TKL 15, truncated
  << 64, 0, 0, 7 >>,                           \* 0.00 Empty
  << 0, 1, 0, 2 >>,                            \* version 0
  << 208, 69, 128, 0 >>,                       \* version 3, NON... (typ 1)
  << 96, 69, 171, 205 >>,                      \* v1 ACK 2.05
  << 66, 1, 0, 3, 9 >>                         \* TKL 2 with one token byte: suffix completes or not
>>

HdrSet == IF IOEnv.HDRS = "all" THEN 1 .. Len(Headers) ELSE { atoi(IOEnv.HDRS) }

\* option-header bytes with nibbles 0,1,12(C),13(D),14(E),15(F) and extension bytes 242/243/254
\* (E0 FE F2 = option 65535, so running sums past 65535 are reachable)
Alphabet == { 0, 1, 13, 14, 15, 16, 17, 29, 30, 192, 193, 208, 209, 221, 222,
              224, 225, 237, 238, 240, 242, 243, 254, 255 }

VARIABLES b, n
vars == << b, n >>

Init == \E h \in HdrSet : b = Headers[h] /\ n = 0
Next == n < Depth /\ \E x \in Alphabet : b' = Append(b, x) /\ n' = n + 1
Spec == Init /\ [][Next]_vars

D == Decode(b)

\* exactly one verdict (totality: TLC evaluates Decode on every state without error)
Partition == D.verdict \in { "must_accept", "must_reject", "either" }

\* C02 on the specification: whatever is accepted re-encodes to Canon(b)
Lossless == D.verdict # "must_reject" =>
              /\ Encodable(D.msg)
              /\ Encode(D.msg) = Canon(b)
              /\ WireLen(D.msg) = Len(Canon(b))

\* decoding the canonical form gives the same message (modulo the dropped payload)
Stable == D.verdict # "must_reject" => Decode(Canon(b)).msg = Norm(D.msg)

\* the rejection clauses of C03, stated independently of Decode's structure
Tkl == b[1] % 16
RejectClauses ==
  /\ (Len(b) < 4) => (D.verdict = "must_reject")
  /\ (Len(b) >= 4 /\ Tkl > 8) => (D.verdict = "must_reject")
  /\ (Len(b) >= 4 /\ Tkl <= 8 /\ Len(b) < 4 + Tkl) => (D.verdict = "must_reject")

Emit == EmitOn =>
  CSVWrite("%1$s", << ToJson([b |-> b, verdict |-> D.verdict, msg |-> D.msg, canon |-> Canon(b)]) >>, IOEnv.OUT)
=============================================================================
