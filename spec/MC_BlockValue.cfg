SPECIFICATION Spec
INVARIANT RoundTrip
INVARIANT NewShape
INVARIANT Emit
CHECK_DEADLOCK FALSE
