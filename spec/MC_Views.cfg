SPECIFICATION Spec
VIEW View
CONSTRAINT Bound
INVARIANT RawAgrees
INVARIANT UnknownSurfaces
ACTION_CONSTRAINT SetThenGet
ACTION_CONSTRAINT Emit
CHECK_DEADLOCK FALSE
