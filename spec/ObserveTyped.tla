---------------------------- MODULE ObserveTyped ----------------------------
(***************************************************************************)
(* Observe.tla once more, in the typed fragment Apalache accepts: total    *)
(* functions over a fixed set of paths instead of a function with a        *)
(* growing domain, and one record shape for an observer (hasMid / mid      *)
(* instead of an optional field).  Pure operators on the subject state     *)
(*   st = [limit, present, seqno, obs]                                     *)
(* so that MC_ObserveInd (Apalache: inductive invariant and step           *)
(* properties from ANY state satisfying it, i.e. for histories of every    *)
(* length) and MC_ObserveBind (TLC: this module and Observe.tla agree on   *)
(* every transition of MC_Observe) use the same definitions.               *)
(***************************************************************************)
EXTENDS Integers, Sequences, FiniteSets, Apalache

(*
  @typeAlias: obs = { ep: Str, tok: Seq(Int), unacked: Int, hasMid: Bool, mid: Int };
  @typeAlias: st = { limit: Int, present: Set(Str), seqno: Str -> Int, obs: Str -> Seq($obs) };
  @typeAlias: call = { op: Str, ep: Str, tok: Seq(Int), p: Str, mid: Int, con: Bool, n: Int };
*)
ObserveTyped_aliases == TRUE

\* @type: Set(Str);
TPaths == { "a", "b/c", "/a" }
\* @type: Set(Str);
TEndpoints == { "e1", "e2", "e3" }
\* @type: Set(Seq(Int));
TTokens == { << >>, << 0 >> }
\* @type: Set(Int);
TMids == { 0, 65535 }
\* @type: Set(Int);
TLimits == { 0, 1, 2, 255 }

\* @type: Seq($obs);
NoObs == << >>

\* @type: $st;
InitT == [limit |-> 10, present |-> {}, seqno |-> [p \in TPaths |-> 0], obs |-> [p \in TPaths |-> NoObs]]

\* @type: (Str, Seq(Int)) => $obs;
FreshT(ep, tok) == [ep |-> ep, tok |-> tok, unacked |-> 0, hasMid |-> FALSE, mid |-> 0]

\* first index holding this endpoint, 0 if none
\* @type: (Seq($obs), Str) => Int;
IdxEpT(q, ep) ==
  IF \E i \in DOMAIN q : q[i].ep = ep
  THEN CHOOSE i \in DOMAIN q : q[i].ep = ep /\ \A j \in DOMAIN q : j < i => q[j].ep # ep
  ELSE 0

\* @type: (Seq($obs), Int) => Seq($obs);
RemoveAtT(q, i) == SubSeq(q, 1, i - 1) \o SubSeq(q, i + 1, Len(q))

\* @type: ($st, Str, Seq(Int), Str) => $st;
RegisterT(st, ep, tok, p) ==
  LET q == st.obs[p]
      i == IdxEpT(q, ep)
      nq == IF i = 0 THEN Append(q, FreshT(ep, tok)) ELSE [q EXCEPT ![i] = FreshT(ep, tok)]
  IN [st EXCEPT !.present = @ \cup { p }, !.obs = [@ EXCEPT ![p] = nq]]

\* @type: ($st, Str, Seq(Int), Str) => $st;
DeregisterT(st, ep, tok, p) ==
  IF p \notin st.present THEN st
  ELSE LET q == st.obs[p]
           M == { i \in DOMAIN q : q[i].ep = ep /\ q[i].tok = tok }
       IN IF M = {} THEN st
          ELSE LET i == CHOOSE x \in M : \A j \in M : x <= j
               IN [st EXCEPT !.obs = [@ EXCEPT ![p] = RemoveAtT(q, i)]]

\* @type: ($obs, Int, Bool) => $obs;
BumpT(o, mid, con) == [o EXCEPT !.hasMid = TRUE, !.mid = mid, !.unacked = IF con THEN @ + 1 ELSE @]

\* @type: ($st, Str, Int, Bool) => $st;
ChangedT(st, p, mid, con) ==
  IF p \notin st.present THEN st
  ELSE LET \* @type: (Seq($obs), $obs) => Seq($obs);
           Keep(acc, o) == IF BumpT(o, mid, con).unacked <= st.limit THEN Append(acc, BumpT(o, mid, con)) ELSE acc
       IN [st EXCEPT !.seqno = [@ EXCEPT ![p] = @ + 1],
                     !.obs = [@ EXCEPT ![p] = ApaFoldSeqLeft(Keep, NoObs, st.obs[p])]]

\* @type: (Seq($obs), Str, Int) => Seq($obs);
AckSeqT(q, ep, mid) ==
  LET M == { i \in DOMAIN q : q[i].ep = ep /\ q[i].hasMid /\ q[i].mid = mid } IN
  IF M = {} THEN q
  ELSE LET i == CHOOSE x \in M : \A j \in M : x <= j
       IN [q EXCEPT ![i] = [@ EXCEPT !.unacked = 0, !.hasMid = FALSE, !.mid = 0]]

\* @type: ($st, Str, Int) => $st;
AckT(st, ep, mid) == [st EXCEPT !.obs = [p \in TPaths |-> AckSeqT(st.obs[p], ep, mid)]]

\* @type: ($st, Int) => $st;
SetLimitT(st, n) == [st EXCEPT !.limit = n]

\* @type: ($st, $call) => $st;
ApplyT(st, c) ==
  IF c.op = "register" THEN RegisterT(st, c.ep, c.tok, c.p)
  ELSE IF c.op = "deregister" THEN DeregisterT(st, c.ep, c.tok, c.p)
  ELSE IF c.op = "changed" THEN ChangedT(st, c.p, c.mid, c.con)
  ELSE IF c.op = "ack" THEN AckT(st, c.ep, c.mid)
  ELSE SetLimitT(st, c.n)

\* @type: Set($call);
TCalls ==
     { [op |-> "register", ep |-> e, tok |-> k, p |-> p, mid |-> 0, con |-> FALSE, n |-> 0] : e \in TEndpoints, k \in TTokens, p \in TPaths }
  \cup { [op |-> "deregister", ep |-> e, tok |-> k, p |-> p, mid |-> 0, con |-> FALSE, n |-> 0] : e \in TEndpoints, k \in TTokens, p \in TPaths }
  \cup { [op |-> "changed", ep |-> "", tok |-> << >>, p |-> p, mid |-> m, con |-> c, n |-> 0] : p \in TPaths, m \in TMids, c \in BOOLEAN }
  \cup { [op |-> "ack", ep |-> e, tok |-> << >>, p |-> "", mid |-> m, con |-> FALSE, n |-> 0] : e \in TEndpoints, m \in TMids }
  \cup { [op |-> "limit", ep |-> "", tok |-> << >>, p |-> "", mid |-> 0, con |-> FALSE, n |-> n] : n \in TLimits }

(* ---- the invariant, inductive relative to itself ------------------------- *)
\* @type: $st => Bool;
OnePerEndpointT(st) ==
  \A p \in TPaths : \A i, j \in DOMAIN st.obs[p] : st.obs[p][i].ep = st.obs[p][j].ep => i = j

\* @type: $st => Bool;
IndInvT(st) ==
  /\ st.limit \in 0 .. 255
  /\ st.present \subseteq TPaths
  /\ \A p \in TPaths :
       /\ st.seqno[p] >= 0
       /\ p \notin st.present => (st.obs[p] = NoObs /\ st.seqno[p] = 0)
       /\ \A i \in DOMAIN st.obs[p] :
            LET o == st.obs[p][i] IN
            /\ o.ep \in TEndpoints /\ o.tok \in TTokens
            /\ o.unacked \in 0 .. 255              \* the counter never leaves the range of the limit: no wrap-around
            /\ o.mid \in 0 .. 65535 /\ (~o.hasMid => o.mid = 0)
  /\ OnePerEndpointT(st)

(* ---- C14 / C15 as properties of one step st --c--> t --------------------- *)
\* @type: (Seq($obs)) => Seq(Str);
EpsT(q) == LET \* @type: (Seq(Str), $obs) => Seq(Str);
               A(acc, o) == Append(acc, o.ep) IN ApaFoldSeqLeft(A, << >>, q)

\* @type: ($st, $call, $st) => Bool;
StepPropsT(st, c, t) ==
  \* register: replace in place, or append; the record exists afterwards
  /\ c.op = "register" =>
       LET old == st.obs[c.p]  new == t.obs[c.p]  i == IdxEpT(old, c.ep) IN
       /\ c.p \in t.present
       /\ (i = 0 => new = Append(old, FreshT(c.ep, c.tok)))
       /\ (i # 0 => Len(new) = Len(old) /\ new[i] = FreshT(c.ep, c.tok)
                   /\ \A j \in DOMAIN old : j # i => new[j] = old[j])
  \* deregister: exactly the observer whose endpoint and token both match, nothing else
  /\ c.op = "deregister" =>
       IF c.p \in st.present /\ \E i \in DOMAIN st.obs[c.p] : st.obs[c.p][i].ep = c.ep /\ st.obs[c.p][i].tok = c.tok
       THEN /\ Len(t.obs[c.p]) = Len(st.obs[c.p]) - 1
            /\ \A i \in DOMAIN t.obs[c.p] : ~(t.obs[c.p][i].ep = c.ep /\ t.obs[c.p][i].tok = c.tok)
            /\ t.seqno = st.seqno /\ t.present = st.present
       ELSE t = st
  \* operations on one path never change another path
  /\ c.op \in { "register", "deregister", "changed" } =>
       \A q \in TPaths : q # c.p => (t.obs[q] = st.obs[q] /\ t.seqno[q] = st.seqno[q] /\ (q \in t.present <=> q \in st.present))
  \* only register creates records
  /\ c.op # "register" => t.present = st.present
  \* the sequence number: +1 exactly on a round for an observed path, never otherwise, never backwards
  /\ \A p \in TPaths : t.seqno[p] = IF c.op = "changed" /\ c.p = p /\ p \in st.present THEN st.seqno[p] + 1 ELSE st.seqno[p]
  \* eviction exactly past the limit, survivors in order, and below the limit afterwards
  /\ (c.op = "changed" /\ c.p \in st.present) =>
       LET old == st.obs[c.p]
           \* @type: (Seq($obs), $obs) => Seq($obs);
           KeepOld(acc, o) == IF (IF c.con THEN o.unacked + 1 ELSE o.unacked) <= st.limit THEN Append(acc, o) ELSE acc
       IN /\ EpsT(t.obs[c.p]) = EpsT(ApaFoldSeqLeft(KeepOld, NoObs, old))
          /\ \A i \in DOMAIN t.obs[c.p] : t.obs[c.p][i].unacked <= st.limit /\ t.obs[c.p][i].hasMid /\ t.obs[c.p][i].mid = c.mid
  \* acknowledge: the matching observer of that endpoint is reset, every other observer is untouched
  /\ c.op = "ack" =>
       \A p \in TPaths :
         /\ Len(t.obs[p]) = Len(st.obs[p])
         /\ \A i \in DOMAIN st.obs[p] :
              LET o == st.obs[p][i]  n == t.obs[p][i] IN
              IF o.ep = c.ep /\ o.hasMid /\ o.mid = c.mid
              THEN n = [o EXCEPT !.unacked = 0, !.hasMid = FALSE, !.mid = 0]
              ELSE n = o
=============================================================================
