------------------------- MODULE Trace_ObserveServer -------------------------
(***************************************************************************)
(* Trace specification for the composed observe loop (growth): request /   *)
(* acknowledgement datagrams and notification rounds of the real loop      *)
(* (from_bytes, from_packet, get_observe_flag, Subject, create_notification,*)
(* to_bytes) must equal ObserveServer!HandleRequest / Change.              *)
(***************************************************************************)
EXTENDS ObserveServer, TraceLib

VARIABLES l, sv, live, bad, done
vars == << l, sv, live, bad, done >>
OutOf(e) == IF e.out.k = "some" THEN Some(e.out.bytes) ELSE None

Init == l = 1 /\ sv = InitServer /\ live = FALSE /\ bad = << >> /\ done = FALSE
Step ==
  /\ l <= NRec /\ l' = l + 1 /\ UNCHANGED done
  /\ LET e == Rec[l] IN
     IF e.op = "reset" THEN sv' = InitServer /\ live' = TRUE /\ UNCHANGED bad
     ELSE IF ~live THEN UNCHANGED << sv, live, bad >>
     ELSE IF e.op = "limit" THEN sv' = [sv EXCEPT !.subj = SetLimit(@, e.n)] /\ UNCHANGED << live, bad >>
     ELSE IF e.op = "oreq"
     THEN LET x == HandleRequest(sv, e.ep, e.in) IN
          IF e.out.k # "panic" /\ OutOf(e) = x.out THEN sv' = x.sv /\ UNCHANGED << live, bad >>
          ELSE /\ bad' = AddBad(bad, BadEntry(l, {"C14", "C15", "C19"}, "reply to a (de)registration / acknowledgement differs from ObserveServer.tla"))
               /\ live' = FALSE /\ UNCHANGED sv
     ELSE LET x == Change(sv, e.p, e.mid, e.con) IN
          IF ~e.panicked /\ e.out = x.out THEN sv' = x.sv /\ UNCHANGED << live, bad >>
          ELSE /\ bad' = AddBad(bad, BadEntry(l, {"C14", "C15"}, "notification round differs from ObserveServer.tla (who is notified, in which order, token, sequence, id, type)"))
               /\ live' = FALSE /\ UNCHANGED sv
Finish == l = NRec + 1 /\ ~done /\ done' = TRUE /\ UNCHANGED << l, sv, live, bad >>
          /\ WriteResult(bad, [episodes |-> Cardinality({i \in 1 .. NRec : Rec[i].op = "reset"}), drift |-> 0])
Next == Step \/ Finish
Spec == Init /\ [][Next]_vars
Inv == OneObserverPerEndpoint(sv.subj)
=============================================================================
