SPECIFICATION Spec
INVARIANT Shape
INVARIANT Emit
CHECK_DEADLOCK FALSE
