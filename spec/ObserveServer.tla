--------------------------- MODULE ObserveServer ---------------------------
(***************************************************************************)
(* Composition (growth beyond the listed properties): RFC 7641 end to end  *)
(* over datagrams.  A server keeps a Subject (Observe.tla) and one value   *)
(* per resource; GET with Observe = 0 / 1 registers / deregisters through  *)
(* the request accessors (Views.tla); a change of a resource runs one      *)
(* notification round (resource_changed, then one create_notification per  *)
(* remaining observer); an ACK datagram acknowledges by message id.        *)
(* Clients apply the freshness rule: the Observe values they receive for a *)
(* registration strictly increase, and carry their registered token.       *)
(***************************************************************************)
EXTENDS Observe, Views

Val(p, ver) == << ver % 256, Len(p) >>
PathKey(req) == GetPath(req)                       \* the joined UTF-8 path, as bytes

\* 4 big-endian digits of a sequence number below 2^31
Digits4(n) == << n \div 16777216, (n \div 65536) % 256, (n \div 256) % 256, n % 256 >>

NotificationMsg(mid, tok, seq, pay, con) ==
  [ver |-> 1, typ |-> IF con THEN 0 ELSE 1, code |-> 69, mid |-> mid, tok |-> tok,
   opts |-> << << OPT_OBSERVE, << UintEnc(Digits4(seq)) >> >> >>, pay |-> pay]

\* server state: [subj, vers : path -> version]
InitServer == [subj |-> InitSubject, vers |-> << >>]
VerOf(sv, p) == IF p \in DOMAIN sv.vers THEN sv.vers[p] ELSE 0

\* one request datagram from ep: [sv, out (option bytes)]
HandleRequest(sv, ep, dgram) ==
  LET d == Decode(dgram) IN
  IF d.verdict = "must_reject" THEN [sv |-> sv, out |-> None]
  ELSE
  LET req == d.msg
      p == PathKey(req)
      flag == GetObserveFlag(req)
      resp == NewResponse(req) IN
  IF req.typ = 2
  THEN [sv |-> [sv EXCEPT !.subj = Acknowledge(@, ep, req.mid)], out |-> None]     \* an ACK acknowledges by id
  ELSE IF ~resp.some THEN [sv |-> sv, out |-> None]
  ELSE IF req.code # 1 THEN [sv |-> sv, out |-> Some(Encode([resp.v EXCEPT !.code = 133]))]
  ELSE LET subj2 == IF flag = "register" THEN Register(sv.subj, ep, req.tok, p)
                    ELSE IF flag = "deregister" THEN Deregister(sv.subj, ep, req.tok, p)
                    ELSE sv.subj
           seq == IF Present(subj2, p) THEN subj2.res[p].seq ELSE 0
           r1 == [resp.v EXCEPT !.pay = Val(p, VerOf(sv, p))]
           r2 == IF flag = "register" THEN [r1 EXCEPT !.opts = SetOpt(@, OPT_OBSERVE, << UintEnc(Digits4(seq)) >>)] ELSE r1
       IN [sv |-> [sv EXCEPT !.subj = subj2], out |-> Some(Encode(r2))]

\* one notification round for path p with message id mid: the datagrams sent, in observer order
Change(sv, p, mid, con) ==
  LET ver == VerOf(sv, p) + 1
      subj2 == ResourceChanged(sv.subj, p, mid, con)
      obs == IF Present(subj2, p) THEN subj2.res[p].obs ELSE << >>
      seq == IF Present(subj2, p) THEN subj2.res[p].seq ELSE 0 IN
  [sv |-> [subj |-> subj2, vers |-> IF p \in DOMAIN sv.vers THEN [sv.vers EXCEPT ![p] = ver] ELSE sv.vers @@ (p :> ver)],
   out |-> [i \in 1 .. Len(obs) |-> [ep |-> obs[i].ep, dg |-> Encode(NotificationMsg(mid, obs[i].tok, seq, Val(p, ver), con))]]]

\* the Observe value of a (decoded) message, as a number; -1 if absent
ObsValue(m) == LET vs == ValsOf(m.opts, OPT_OBSERVE) IN IF vs = << >> THEN 0 - 1 ELSE BEVal(vs[1])
=============================================================================
