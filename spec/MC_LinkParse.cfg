SPECIFICATION Spec
INVARIANT SubstringsOk
INVARIANT LeftToRightOk
INVARIANT FusedOk
INVARIANT AdvancesOk
INVARIANT UnquoteShort
INVARIANT Emit
CHECK_DEADLOCK FALSE
