SPECIFICATION Spec
INVARIANT RoundTrip
INVARIANT DecodeTotal
INVARIANT Emit
CHECK_DEADLOCK FALSE
