-------------------------- MODULE MC_ObserveServer --------------------------
(***************************************************************************)
(* Two clients, two resources, limit 1: registrations, deregistrations,    *)
(* confirmable / non-confirmable changes, acknowledgements (also stale and *)
(* foreign ones), every interleaving to a depth.  End-to-end properties:   *)
(* freshness (strictly increasing Observe values per registration), the    *)
(* registered token on every notification, no notification after an        *)
(* observer was dropped or deregistered, eviction exactly past the limit.  *)
(* Complete behaviours are emitted as scripts for the real loop.           *)
(* Environment: DEPTH, OUT (optional).                                     *)
(***************************************************************************)
EXTENDS ObserveServer, IOUtils, Json, CSV

Depth == atoi(IOEnv.DEPTH)
EmitOn == "OUT" \in DOMAIN IOEnv
Clients == { "c1", "c2" }
PathsB == { << 116 >>, << 116, 47, 117 >> }          \* "t", "t/u" as joined keys
SegsOf(p) == IF p = << 116 >> THEN << << 116 >> >> ELSE << << 116 >>, << 117 >> >>
TokOf(c, n) == IF c = "c1" THEN << 1, n >> ELSE << 2, n, 2 >>

GetDgram(c, p, mid, tok, obs) ==
  LET o1 == IF obs = "none" THEN << >> ELSE << << OPT_OBSERVE, << IF obs = "register" THEN << >> ELSE << 1 >> >> >> >>
      o2 == Append(o1, << OPT_URI_PATH, SegsOf(p) >>) IN
  Encode([ver |-> 1, typ |-> 0, code |-> 1, mid |-> mid, tok |-> tok, opts |-> o2, pay |-> << >>])
AckDgram(mid) == Encode([ver |-> 1, typ |-> 2, code |-> 0, mid |-> mid, tok |-> << >>, opts |-> << >>, pay |-> << >>])

\* per client and path: the token of the current registration (none if not registered), the last
\* Observe value seen for it, unacked = confirmable notifications received since the last ack
VARIABLES sv, cl, round, lastMid, h, viol
vars == << sv, cl, round, lastMid, h, viol >>
NoReg == [reg |-> FALSE, tok |-> << >>, last |-> 0 - 1, nreg |-> 0, unacked |-> 0, pend |-> 0 - 1]
Init == /\ sv = [InitServer EXCEPT !.subj = SetLimit(@, 1)] /\ cl = [c \in Clients |-> [p \in PathsB |-> NoReg]]
        /\ round = 0 /\ lastMid = 0 /\ h = << [op |-> "limit", n |-> 1] >> /\ viol = << >>

Check(c, what) == IF c THEN << >> ELSE << what >>

DoRegister(c, p) ==
  LET k == cl[c][p]
      tok == TokOf(c, k.nreg)
      dg == GetDgram(c, p, 100 + Len(h), tok, "register")
      x == HandleRequest(sv, c, dg)
      r == Decode(x.out.v).msg IN
  /\ sv' = x.sv /\ h' = Append(h, [op |-> "req", ep |-> c, dg |-> dg])
  /\ cl' = [cl EXCEPT ![c][p] = [reg |-> TRUE, tok |-> tok, last |-> ObsValue(r), nreg |-> k.nreg + 1, unacked |-> 0, pend |-> 0 - 1]]
  /\ viol' = viol \o Check(x.out.some /\ r.tok = tok /\ ObsValue(r) >= 0, "registration reply lacks token / Observe")
  /\ UNCHANGED << round, lastMid >>

DoDeregister(c, p) ==
  LET k == cl[c][p]
      dg == GetDgram(c, p, 100 + Len(h), k.tok, "deregister")
      x == HandleRequest(sv, c, dg) IN
  /\ k.reg
  /\ sv' = x.sv /\ h' = Append(h, [op |-> "req", ep |-> c, dg |-> dg])
  /\ cl' = [cl EXCEPT ![c][p] = [k EXCEPT !.reg = FALSE]]
  /\ UNCHANGED << round, lastMid, viol >>

DoChange(p, con) ==
  LET mid == 1000 + round
      x == Change(sv, p, mid, con)
      recv(c) == { i \in 1 .. Len(x.out) : x.out[i].ep = c } IN
  /\ sv' = x.sv /\ round' = round + 1 /\ lastMid' = mid
  /\ h' = Append(h, [op |-> "change", p |-> p, mid |-> mid, con |-> con])
  /\ viol' = viol
       \o Check(\A i \in 1 .. Len(x.out) :
                  LET m == Decode(x.out[i].dg).msg
                      k == cl[x.out[i].ep][p] IN
                  k.reg /\ m.tok = k.tok /\ ObsValue(m) > k.last /\ m.mid = mid /\ m.pay = Val(p, VerOf(x.sv, p)),
                "notification to a non-observer, with a wrong token, a stale Observe value, a wrong id or a wrong body")
       \o Check(\A c \in Clients : Cardinality(recv(c)) <= 1, "two notifications to one endpoint in one round")
       \* an observer with at most `limit` unacknowledged confirmable notifications is still notified;
       \* one beyond the limit is not
       \o Check(\A c \in Clients : cl[c][p].reg =>
                  ((recv(c) # {}) <=> ((IF con THEN cl[c][p].unacked + 1 ELSE cl[c][p].unacked) <= 1)),
                "observer dropped too early or too late")
  /\ cl' = [c \in Clients |-> [q \in PathsB |->
             IF q = p /\ recv(c) # {}
             THEN LET i == CHOOSE i \in recv(c) : TRUE IN
                  [cl[c][q] EXCEPT !.last = ObsValue(Decode(x.out[i].dg).msg), !.unacked = IF con THEN @ + 1 ELSE @, !.pend = mid]
             ELSE IF q = p /\ cl[c][q].reg THEN [cl[c][q] EXCEPT !.reg = FALSE]      \* dropped by the server
             ELSE cl[c][q]]]

\* acknowledge the id of a notification this client holds, or an id nobody holds
DoAck(c, m) ==
  LET dg == AckDgram(m)
      x == HandleRequest(sv, c, dg) IN
  /\ sv' = x.sv /\ h' = Append(h, [op |-> "req", ep |-> c, dg |-> dg])
  /\ viol' = viol \o Check(~x.out.some, "an acknowledgement was answered")
  /\ cl' = [cl EXCEPT ![c] = [q \in PathsB |->
               IF cl[c][q].reg /\ cl[c][q].pend = m THEN [cl[c][q] EXCEPT !.unacked = 0, !.pend = 0 - 1] ELSE cl[c][q]]]
  /\ UNCHANGED << round, lastMid >>

Next == /\ Len(h) <= Depth
        /\ \/ \E c \in Clients, p \in PathsB : DoRegister(c, p) \/ DoDeregister(c, p)
           \/ \E p \in PathsB, con \in BOOLEAN : DoChange(p, con)
           \/ \E c \in Clients : \E m \in { cl[c][q].pend : q \in PathsB } \cup { 999 } : m >= 0 /\ DoAck(c, m)
Spec == Init /\ [][Next]_vars

NoViolation == viol = << >>
SubjectInv == OneObserverPerEndpoint(sv.subj)
View == << sv, cl, round % 2, viol >>
Emit == (EmitOn /\ Len(h') = Depth + 1) => CSVWrite("%1$s", << ToJson([steps |-> h']) >>, IOEnv.OUT)
=============================================================================
