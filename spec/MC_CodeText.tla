---------------------------- MODULE MC_CodeText ----------------------------
(***************************************************************************)
(* Growth (text forms): Header::set_code on every text of up to LEN        *)
(* characters over an alphabet of digits, '.', '+', '-', ' ' and a letter. *)
(* For every text: either it is a c.dd form Rust's parser accepts and the  *)
(* code is class * 32 + detail, or the precondition is violated (panic).   *)
(* Theorem checked here: the printed form of every code parses back to it. *)
(* One state per text; its row is emitted for replay.  Environment: LEN.   *)
(***************************************************************************)
EXTENDS Registry, TLC, IOUtils, Json, CSV, FiniteSets

MaxLen == atoi(IOEnv.LEN)
Alphabet == { 48, 49, 50, 51, 55, 56, 57, 46, 43, 45, 32, 120 }     \* 0 1 2 3 7 8 9 . + - space x

VARIABLE t
Init == t = << >>
Next == Len(t) < MaxLen /\ \E c \in Alphabet : t' = Append(t, c)
Spec == Init /\ [][Next]_t

PrintedForm(b) == << 48 + (b \div 32), CH_DOT, 48 + ((b % 32) \div 10), 48 + ((b % 32) % 10) >>
ASSUME \A b \in 0 .. 255 : ParseCodeText(PrintedForm(b)) = [ok |-> TRUE, code |-> b]
\* a parsed code is a byte, and the text really has the shape digits '.' digits (with optional '+')
Shape == LET r == ParseCodeText(t) IN
         r.ok => /\ r.code \in 0 .. 255
                 /\ Cardinality({ i \in 1 .. Len(t) : t[i] = CH_DOT }) = 1
                 /\ \A i \in 1 .. Len(t) : IsDigitCh(t[i]) \/ t[i] = CH_DOT \/ t[i] = CH_PLUS
Emit == LET r == ParseCodeText(t) IN
        CSVWrite("%1$s", << ToJson([t |-> t, ok |-> r.ok, code |-> IF r.ok THEN r.code ELSE 0]) >>, IOEnv.OUT)
=============================================================================
