---------------------------- MODULE MC_CodeText ----------------------------
(***************************************************************************)
(* Growth (text forms): Header::set_code on every text of up to LEN        *)
(* characters over an alphabet of digits, '.', '+', '-', ' ' and a letter. *)
(* For every text: either it is a c.dd form Rust's parser accepts and the  *)
(* code is class * 32 + detail, or the precondition is violated (panic).   *)
(* Theorem checked here: the printed form of every code parses back to it. *)
(* One state per text; its row is emitted for replay.  Environment: LEN.   *)
(***************************************************************************)
EXTENDS Registry, TLC, IOUtils, Json, CSV, FiniteSets

MaxLen == atoi(IOEnv.LEN)
Alphabet == { 48, 49, 50, 51, 52, 55, 56, 57, 46, 43, 45, 32, 120 }     \* 0 1 2 3 4 7 8 9 . + - space x

\* numbers that only fit a wider integer than a byte: a field parsed as such and then narrowed must not alias
\* a real code (class and detail fields drawn from this list, every pair)
Digits(str) == CASE str = "0" -> << 48 >> [] str = "4" -> << 52 >> [] str = "7" -> << 55 >> [] str = "8" -> << 56 >>
                 [] str = "31" -> << 51, 49 >> [] str = "32" -> << 51, 50 >> [] str = "04" -> << 48, 52 >>
                 [] str = "255" -> << 50, 53, 53 >> [] str = "256" -> << 50, 53, 54 >> [] str = "260" -> << 50, 54, 48 >>
                 [] str = "263" -> << 50, 54, 51 >> [] str = "264" -> << 50, 54, 52 >> [] str = "287" -> << 50, 56, 55 >>
                 [] str = "288" -> << 50, 56, 56 >> [] str = "512" -> << 53, 49, 50 >> [] str = "65540" -> << 54, 53, 53, 52, 48 >>
                 [] str = "4294967300" -> << 52, 50, 57, 52, 57, 54, 55, 51, 48, 48 >>
                 [] str = "18446744073709551620" -> << 49, 56, 52, 52, 54, 55, 52, 52, 48, 55, 51, 55, 48, 57, 53, 53, 49, 54, 50, 48 >>
Fields == { Digits(x) : x \in { "0", "4", "7", "8", "31", "32", "04", "255", "256", "260", "263", "264", "287", "288", "512", "65540",
                                "4294967300", "18446744073709551620" } }
BigTexts == { c \o << CH_DOT >> \o d : c \in Fields, d \in Fields }

VARIABLE t
Init == t = << >> \/ t \in BigTexts
Next == Len(t) < MaxLen /\ t \notin BigTexts /\ \E c \in Alphabet : t' = Append(t, c)
Spec == Init /\ [][Next]_t

PrintedForm(b) == << 48 + (b \div 32), CH_DOT, 48 + ((b % 32) \div 10), 48 + ((b % 32) % 10) >>
ASSUME \A b \in 0 .. 255 : ParseCodeText(PrintedForm(b)) = [ok |-> TRUE, code |-> b]
\* a parsed code is a byte, and the text really has the shape digits '.' digits (with optional '+')
Shape == LET r == ParseCodeText(t) IN
         r.ok => /\ r.code \in 0 .. 255
                 /\ Cardinality({ i \in 1 .. Len(t) : t[i] = CH_DOT }) = 1
                 /\ \A i \in 1 .. Len(t) : IsDigitCh(t[i]) \/ t[i] = CH_DOT \/ t[i] = CH_PLUS
Emit == LET r == ParseCodeText(t) IN
        CSVWrite("%1$s", << ToJson([t |-> t, ok |-> r.ok, code |-> IF r.ok THEN r.code ELSE 0]) >>, IOEnv.OUT)
=============================================================================
