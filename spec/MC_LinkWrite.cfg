SPECIFICATION Spec
INVARIANT WriterOk
INVARIANT RoundTripOk
INVARIANT Reported
INVARIANT Emit
PROPERTY Sticky
CHECK_DEADLOCK FALSE
