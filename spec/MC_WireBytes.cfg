SPECIFICATION Spec
INVARIANT Partition
INVARIANT Lossless
INVARIANT Stable
INVARIANT RejectClauses
INVARIANT Emit
CHECK_DEADLOCK FALSE
