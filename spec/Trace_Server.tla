---------------------------- MODULE Trace_Server ----------------------------
(***************************************************************************)
(* Trace specification for the composed server loop (growth): every        *)
(* datagram in / datagram out pair of the real pipeline (from_bytes ->     *)
(* from_packet -> intercept_request -> application -> intercept_response   *)
(* -> apply_from_error -> to_bytes) is compared with Server!Serve.         *)
(* What the listed properties say end to end decides (correlation on the   *)
(* wire, silence where due, reassembled bodies); a byte difference that    *)
(* leaves those intact is drift.                                           *)
(***************************************************************************)
EXTENDS Server, TraceLib

VARIABLES l, cache, M, live, bad, done, drift
vars == << l, cache, M, live, bad, done, drift >>

OutOf(e) == IF e.out.k = "some" THEN Some(e.out.bytes) ELSE None

Init == l = 1 /\ cache = << >> /\ M = 1152 /\ live = FALSE /\ bad = << >> /\ done = FALSE /\ drift = 0

StepDgram(e) ==
  IF e.out.k = "panic"
  THEN /\ bad' = AddBad(bad, BadEntry(l, {"C11"}, "server loop panicked")) /\ live' = FALSE /\ UNCHANGED << cache, drift >>
  ELSE LET x == Serve(cache, e.ep, e.in, M)
           out == OutOf(e) IN
       IF x.out = out
       THEN /\ cache' = x.cache /\ UNCHANGED << live, drift >>
            /\ bad' = IF ReplyCorrelated(e.in, out) /\ SilentWhenDue(e.in, out) THEN bad
                      ELSE AddBad(bad, BadEntry(l, {"C07", "C12"}, "reply datagram not correlated with the request datagram"))
       ELSE IF ReplyCorrelated(e.in, out) /\ SilentWhenDue(e.in, out)
       THEN \* informational; the model state can no longer be trusted for this episode
            /\ drift' = drift + 1 /\ live' = FALSE /\ UNCHANGED << cache, bad >>
       ELSE /\ bad' = AddBad(bad, BadEntry(l, {"C07", "C12"}, "reply datagram not correlated with the request datagram"))
            /\ live' = FALSE /\ UNCHANGED << cache, drift >>

Step ==
  /\ l <= NRec /\ l' = l + 1 /\ UNCHANGED done
  /\ LET e == Rec[l] IN
     IF e.op = "reset" THEN cache' = << >> /\ M' = e.M /\ live' = TRUE /\ UNCHANGED << bad, drift >>
     ELSE IF e.op = "dgram"
     THEN /\ UNCHANGED M
          /\ IF live THEN StepDgram(e) ELSE UNCHANGED << cache, live, bad, drift >>
     ELSE \* end-to-end summaries are judged whatever happened to the model state
          /\ UNCHANGED << cache, M, live, drift >>
          /\ IF e.op = "e2e_dl"
             THEN bad' = IF e.done /\ e.assembled = e.body THEN bad
                         ELSE AddBad(bad, BadEntry(l, {"C08"}, "client did not reassemble the body from the reply datagrams"))
             ELSE IF e.op = "e2e_ul"
             THEN bad' = IF e.done /\ e.reply = << Len(e.body) \div 256, Len(e.body) % 256, Sum(e.body) >> THEN bad
                         ELSE AddBad(bad, BadEntry(l, {"C09"}, "application did not receive the uploaded body (length/checksum in its reply)"))
             ELSE UNCHANGED bad

Finish == l = NRec + 1 /\ ~done /\ done' = TRUE /\ UNCHANGED << l, cache, M, live, bad, drift >>
          /\ WriteResult(bad, [episodes |-> Cardinality({i \in 1 .. NRec : Rec[i].op = "reset"}), drift |-> drift])
Next == Step \/ Finish
Spec == Init /\ [][Next]_vars
=============================================================================
