----------------------------- MODULE Trace_Views -----------------------------
(***************************************************************************)
(* Trace specification for the convenience layer (C07, C19): recorded      *)
(* getter results, setter effects, generic copies, prepared replies and    *)
(* applied errors are judged against Views.tla.                            *)
(***************************************************************************)
EXTENDS Views, TraceLib

VARIABLES l, bad, done
vars == << l, bad, done >>

TraitOf(j) == [code |-> j.code, pay |-> j.pay, opts |-> j.opts]

\* getters on a stored code that is not what its byte decodes to (Request(UnKnown), Response(UnKnown), a
\* hand-built Reserved value with a named code's byte): the unknown marker, or what the byte says - the
\* property asks nothing more of these; both generic views must hand out the stored value itself
JudgeViews(e) ==
  LET m == MsgOf(e.st)
      av == AllViews(m)
      okNames == e.views.method \in { av.method, GetMethodF(m, e.cform) } /\ e.views.status \in { av.status, GetStatusF(m, e.cform) } IN
  IF e.panicked THEN {"C19"}
  ELSE IF [e.views EXCEPT !.method = av.method, !.status = av.status] = av /\ okNames
          /\ TraitOf(e.t02) = TraitView(m) /\ TraitOf(e.t03) = TraitView(m)
          /\ e.cform \in CodeForms /\ e.t02.cform = e.cform /\ e.t03.cform = e.cform THEN {} ELSE {"C19"}

\* nothing is required of set_method(UnKnown) / set_status(UnKnown) beyond leaving everything but the code alone
JudgeSet(e) ==
  IF e.panicked THEN {"C19"}
  ELSE IF e.f \in { "set_method", "set_status" } /\ e.a.name = "UnKnown"
  THEN (IF [MsgOf(e.post) EXCEPT !.code = 0] = [MsgOf(e.pre) EXCEPT !.code = 0] /\ e.post.tkl = Len(e.pre.tok) THEN {} ELSE {"C19"})
  ELSE IF MsgOf(e.post) = ApplyV(MsgOf(e.pre), e) /\ e.post.tkl = Len(e.pre.tok)
          /\ e.postform = FormAfter(e.preform, e) THEN {} ELSE {"C19"}

\* a message copied through the generic interface: same code, options in ascending number order, payload
JudgeCopy(e) ==
  LET s == MsgOf(e.src)
      d == MsgOf(e.dst) IN
  IF e.panicked THEN {"C19"}
  ELSE IF d.code = s.code /\ d.pay = s.pay /\ d.opts = DropEmpty(s.opts)
          /\ FlatOpts(d.opts) = FlatOpts(s.opts)
          /\ e.dstform = (IF e.api \in { "direct02", "direct03" } THEN e.srcform ELSE "canon")
          /\ d.ver = DefaultMsg.ver /\ d.typ = DefaultMsg.typ /\ d.mid = DefaultMsg.mid /\ d.tok = DefaultMsg.tok
       THEN {} ELSE {"C19"}

RespOf(j) == IF j.some THEN Some(MsgOf(j.v)) ELSE None

JudgeNewResponse(e) ==
  LET req == MsgOf(e.req)
      exp == NewResponse(req) IN
  IF e.panicked THEN {"C07"}
  ELSE IF RespOf(e.resp) = exp /\ MsgOf(e.reqafter) = req
          /\ (exp.some => e.enc.k = "ok" /\ e.enc.bytes = Encode(exp.v) /\ e.resp.v.tkl = Len(req.tok))
       THEN {} ELSE {"C07"}

JudgeApplyError(e) ==
  LET pre == RespOf(e.pre)
      post == RespOf(e.post) IN
  IF e.panicked THEN {"C07"}
  ELSE IF ~pre.some \/ ~e.err.code.some
       THEN (IF ~e.ret /\ post = pre THEN {} ELSE {"C07"})
       ELSE (IF e.ret /\ post.some /\ ErrorTouchesOnly(pre.v, post.v, e.err) THEN {} ELSE {"C07"})

\* informational: the applied error equals the code-shaped operator exactly
Drift(e) == e.op = "apply_error" /\ ~e.panicked /\ RespOf(e.post) # ApplyFromError(RespOf(e.pre), e.err).resp

Judge(e) == CASE e.op = "views" -> JudgeViews(e)
              [] e.op = "set" -> JudgeSet(e)
              [] e.op = "copy" -> JudgeCopy(e)
              [] e.op = "new_response" -> JudgeNewResponse(e)
              [] e.op = "apply_error" -> JudgeApplyError(e)

Init == l = 1 /\ bad = << >> /\ done = FALSE
Step == /\ l <= NRec /\ l' = l + 1 /\ UNCHANGED done
        /\ bad' = IF Judge(Rec[l]) = {} THEN bad ELSE AddBad(bad, BadEntry(l, Judge(Rec[l]), Rec[l].op))
Finish == l = NRec + 1 /\ ~done /\ done' = TRUE /\ UNCHANGED << l, bad >>
          /\ WriteResult(bad, [episodes |-> NRec, drift |-> Cardinality({i \in 1 .. NRec : Drift(Rec[i])})])
Next == Step \/ Finish
Spec == Init /\ [][Next]_vars
=============================================================================
