------------------------------- MODULE Bytes -------------------------------
(***************************************************************************)
(* Byte strings, big-endian numbers, minimal unsigned-integer form.        *)
(* TLC integers are 32-bit: numbers that may exceed 2^31-1 are handled as  *)
(* fixed-width big-endian digit sequences ("digits"), never as Nat.        *)
(***************************************************************************)
EXTENDS Naturals, Sequences

Byte == 0 .. 255
IsBytes(b) == \A i \in 1 .. Len(b) : b[i] \in Byte

Min2(a, b) == IF a <= b THEN a ELSE b
Max2(a, b) == IF a >= b THEN a ELSE b

BE16(x) == << x \div 256, x % 256 >>

\* Nat value of a big-endian byte string (caller keeps it below 2^31).
RECURSIVE BEVal(_)
BEVal(b) == IF b = << >> THEN 0
            ELSE BEVal(SubSeq(b, 1, Len(b) - 1)) * 256 + b[Len(b)]

\* Strip leading zero bytes: the minimal big-endian form of the same number.
RECURSIVE StripZeros(_)
StripZeros(b) == IF b = << >> THEN << >>
                 ELSE IF b[1] = 0 THEN StripZeros(Tail(b)) ELSE b

\* Left-pad with zero bytes to width w (Len(b) <= w).
PadTo(b, w) == [i \in 1 .. (w - Len(b)) |-> 0] \o b

\* Minimal big-endian bytes of a Nat (below 2^31).
RECURSIVE NatBytes(_)
NatBytes(n) == IF n = 0 THEN << >> ELSE NatBytes(n \div 256) \o << n % 256 >>

\* RFC 7252 3.2 "uint": encode from fixed-width digits, decode to fixed-width digits.
UintEnc(digits) == StripZeros(digits)
UintDec(b, w) == IF Len(b) > w THEN [ok |-> FALSE, v |-> << >>]
                 ELSE [ok |-> TRUE, v |-> PadTo(b, w)]

Pow2(n) == 2 ^ n

Zeros(n) == [i \in 1 .. n |-> 0]

None == [some |-> FALSE]
Some(x) == [some |-> TRUE, v |-> x]

Clip(s, a, b) == IF a > b THEN << >> ELSE SubSeq(s, a, b)
=============================================================================
