------------------------------ MODULE Observe ------------------------------
(***************************************************************************)
(* RFC 7641 server side as coap_lite::Subject keeps it: for every observed *)
(* resource path a sequence number and an ordered list of observers        *)
(*   [ep, tok, unacked, mid]                                               *)
(* (mid = the message id awaiting acknowledgement, [some |-> FALSE] if     *)
(* none), and one configuration value, the unacknowledged limit.           *)
(* The operators are pure functions on the subject state                   *)
(*   s = [limit |-> 0..255, res |-> [path -> [seq, obs]]]                  *)
(* so that the model (MC_Observe) and the trace specification              *)
(* (Trace_Observe) use the same definitions.                               *)
(***************************************************************************)
EXTENDS Naturals, Sequences, FiniteSets, TLC

NoMid == [some |-> FALSE]
Mid(m) == [some |-> TRUE, v |-> m]

DefaultLimit == 10
InitSubject == [limit |-> DefaultLimit, res |-> << >>]

Present(s, p) == p \in DOMAIN s.res
Put(res, p, r) == IF p \in DOMAIN res THEN [res EXCEPT ![p] = r] ELSE res @@ (p :> r)

IdxEp(obs, ep) == IF \E i \in 1 .. Len(obs) : obs[i].ep = ep
                  THEN CHOOSE i \in 1 .. Len(obs) : obs[i].ep = ep /\ \A j \in 1 .. (i - 1) : obs[j].ep # ep
                  ELSE 0
Fresh(ep, tok) == [ep |-> ep, tok |-> tok, unacked |-> 0, mid |-> NoMid]

RemoveAt(q, i) == SubSeq(q, 1, i - 1) \o SubSeq(q, i + 1, Len(q))

\* register: replace in place if the endpoint is already observing, else append;
\* creates the resource record (sequence 0) if needed
Register(s, ep, tok, p) ==
  LET r == IF Present(s, p) THEN s.res[p] ELSE [seq |-> 0, obs |-> << >>]
      i == IdxEp(r.obs, ep)
      o == IF i = 0 THEN Append(r.obs, Fresh(ep, tok)) ELSE [r.obs EXCEPT ![i] = Fresh(ep, tok)]
  IN [s EXCEPT !.res = Put(s.res, p, [r EXCEPT !.obs = o])]

\* deregister: remove exactly the (first) observer with this endpoint and token on this path
Deregister(s, ep, tok, p) ==
  IF ~Present(s, p) THEN s ELSE
  LET obs == s.res[p].obs
      M == { i \in 1 .. Len(obs) : obs[i].ep = ep /\ obs[i].tok = tok }
  IN IF M = {} THEN s
     ELSE LET i == CHOOSE i \in M : \A j \in M : i <= j
          IN [s EXCEPT !.res[p].obs = RemoveAt(obs, i)]

\* one notification round: sequence + 1, every observer's pending id set, the
\* unacknowledged count incremented for confirmable rounds, observers whose count
\* exceeds the limit dropped in the same step, the others kept in order
Bump(o, mid, con) == [o EXCEPT !.mid = Mid(mid), !.unacked = IF con THEN @ + 1 ELSE @]
ResourceChanged(s, p, mid, con) ==
  IF ~Present(s, p) THEN s ELSE
  LET r == s.res[p]
      bumped == [i \in 1 .. Len(r.obs) |-> Bump(r.obs[i], mid, con)]
  IN [s EXCEPT !.res[p] = [seq |-> r.seq + 1,
                           obs |-> SelectSeq(bumped, LAMBDA o : o.unacked <= s.limit)]]

\* n non-confirmable rounds in a row with one message id, in closed form (counts do not move, nobody is
\* evicted unless already over the limit at the first of them, the id is set, the sequence advances by n);
\* MC_Observe checks the closed form against n single rounds for n = 0..3
ChangedMany(s, p, mid, n) ==
  IF n = 0 \/ ~Present(s, p) THEN s
  ELSE LET one == ResourceChanged(s, p, mid, FALSE) IN [one EXCEPT !.res[p].seq = s.res[p].seq + n]

\* what the property pins for a round (C15 / 4.23): with no record nothing is created;
\* with a record and at least one observer the sequence is exactly +1; with a record and
\* no observer +0 and +1 are both acceptable
AllowedAfterChange(s, p, mid, con) ==
  LET x == ResourceChanged(s, p, mid, con) IN
  IF Present(s, p) /\ s.res[p].obs = << >>
  THEN { x, [x EXCEPT !.res[p].seq = s.res[p].seq] }
  ELSE { x }

\* acknowledge: on every path the observer with this endpoint whose pending id is mid
AckObs(obs, ep, mid) ==
  LET M == { i \in 1 .. Len(obs) : obs[i].ep = ep /\ obs[i].mid = Mid(mid) } IN
  IF M = {} THEN obs
  ELSE LET i == CHOOSE i \in M : \A j \in M : i <= j
       IN [obs EXCEPT ![i] = [@ EXCEPT !.unacked = 0, !.mid = NoMid]]
Acknowledge(s, ep, mid) ==
  [s EXCEPT !.res = [p \in DOMAIN s.res |-> [s.res[p] EXCEPT !.obs = AckObs(@, ep, mid)]]]

SetLimit(s, n) == [s EXCEPT !.limit = n]

\* one call c = [op, ...] applied to the subject (code-shaped resolution)
ObsApply(s, c) ==
  CASE c.op = "register"   -> Register(s, c.ep, c.tok, c.p)
    [] c.op = "deregister" -> Deregister(s, c.ep, c.tok, c.p)
    [] c.op = "changed"    -> ResourceChanged(s, c.p, c.mid, c.con)
    [] c.op = "changed_many" -> ChangedMany(s, c.p, c.mid, c.n)
    [] c.op = "ack"        -> Acknowledge(s, c.ep, c.mid)
    [] c.op = "limit"      -> SetLimit(s, c.n)

ObsAllowed(s, c) == IF c.op = "changed" THEN AllowedAfterChange(s, c.p, c.mid, c.con) ELSE { ObsApply(s, c) }

(* ---- what of an observer's record can be observed ------------------------ *)
\* The pending message id only ever decides whether an acknowledgement resets the unacknowledged
\* count; while that count is 0 a reset changes nothing, and every notification round overwrites the
\* id.  So the id of an observer whose count is 0 cannot be told through any later operation: model
\* and implementation are compared on ObsView, not on the raw record (a stale or an absent id at
\* count 0 are the same observer).
ObsView(o) == IF o.unacked = 0 THEN [o EXCEPT !.mid = NoMid] ELSE o
ViewSeq(q) == [i \in 1 .. Len(q) |-> ObsView(q[i])]

(* ---- properties (C14, C15) as predicates on states and steps ------------- *)
OneObserverPerEndpoint(s) ==
  \A p \in DOMAIN s.res : \A i, j \in 1 .. Len(s.res[p].obs) :
     s.res[p].obs[i].ep = s.res[p].obs[j].ep => i = j

Eps(obs) == [i \in 1 .. Len(obs) |-> obs[i].ep]

\* C14 step properties, for a step s --c--> t
RegisterShape(s, c, t) == c.op = "register" =>
  LET old == IF Present(s, c.p) THEN s.res[c.p].obs ELSE << >>
      new == t.res[c.p].obs
      i == IdxEp(old, c.ep) IN
  /\ Present(t, c.p)
  /\ (i = 0 => new = Append(old, Fresh(c.ep, c.tok)))
  /\ (i # 0 => Len(new) = Len(old) /\ new[i] = Fresh(c.ep, c.tok)
              /\ \A j \in 1 .. Len(old) : j # i => new[j] = old[j])
DeregisterExact(s, c, t) == c.op = "deregister" =>
  IF Present(s, c.p) /\ \E i \in 1 .. Len(s.res[c.p].obs) : s.res[c.p].obs[i].ep = c.ep /\ s.res[c.p].obs[i].tok = c.tok
  THEN /\ Len(t.res[c.p].obs) = Len(s.res[c.p].obs) - 1
       /\ \A i \in 1 .. Len(t.res[c.p].obs) : ~(t.res[c.p].obs[i].ep = c.ep /\ t.res[c.p].obs[i].tok = c.tok)
       /\ t.res[c.p].seq = s.res[c.p].seq
  ELSE t = s
PathIsolation(s, c, t) == c.op \in {"register", "deregister", "changed"} =>
  \A q \in DOMAIN s.res : q # c.p => (q \in DOMAIN t.res /\ t.res[q] = s.res[q])
NoCreationOnChange(s, c, t) == c.op \in {"changed", "deregister", "ack", "limit"} => DOMAIN t.res = DOMAIN s.res

\* C15 step properties
SeqPlusOne(s, c, t) ==
  /\ \A p \in DOMAIN s.res : t.res[p].seq \in { s.res[p].seq, s.res[p].seq + 1 }
  /\ (c.op = "changed" /\ Present(s, c.p) /\ s.res[c.p].obs # << >>) => t.res[c.p].seq = s.res[c.p].seq + 1
  /\ c.op # "changed" => \A p \in DOMAIN s.res : t.res[p].seq = s.res[p].seq
EvictIffExceeds(s, c, t) == (c.op = "changed" /\ Present(s, c.p)) =>
  LET old == s.res[c.p].obs
      keep == { i \in 1 .. Len(old) : (IF c.con THEN old[i].unacked + 1 ELSE old[i].unacked) <= s.limit }
  IN /\ Eps(t.res[c.p].obs) = Eps(SelectSeq(old, LAMBDA o : (IF c.con THEN o.unacked + 1 ELSE o.unacked) <= s.limit))
     /\ \A i \in 1 .. Len(t.res[c.p].obs) : t.res[c.p].obs[i].unacked <= s.limit
NonConfNeverCounts(s, c, t) == (c.op = "changed" /\ ~c.con /\ Present(s, c.p)) =>
  \A i \in 1 .. Len(t.res[c.p].obs) :
     \E j \in 1 .. Len(s.res[c.p].obs) : s.res[c.p].obs[j].ep = t.res[c.p].obs[i].ep
                                         /\ s.res[c.p].obs[j].unacked = t.res[c.p].obs[i].unacked
AckResetsExactly(s, c, t) == c.op = "ack" =>
  \A p \in DOMAIN s.res :
    /\ Len(t.res[p].obs) = Len(s.res[p].obs) /\ t.res[p].seq = s.res[p].seq
    /\ \A i \in 1 .. Len(s.res[p].obs) :
         LET o == s.res[p].obs[i]  n == t.res[p].obs[i] IN
         IF o.ep = c.ep /\ o.mid = Mid(c.mid)
         THEN n = [o EXCEPT !.unacked = 0, !.mid = NoMid]
         ELSE n = o                                   \* foreign endpoint or other id: nothing changes

StepProps(s, c, t) ==
  /\ RegisterShape(s, c, t) /\ DeregisterExact(s, c, t) /\ PathIsolation(s, c, t)
  /\ NoCreationOnChange(s, c, t) /\ SeqPlusOne(s, c, t) /\ EvictIffExceeds(s, c, t)
  /\ NonConfNeverCounts(s, c, t) /\ AckResetsExactly(s, c, t)
=============================================================================
