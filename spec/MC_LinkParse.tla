---------------------------- MODULE MC_LinkParse ----------------------------
(***************************************************************************)
(* C17 on the specification: every string over the structural alphabet     *)
(* { < > ; , " \ = space a e-acute } up to DEPTH; the iterator functions   *)
(* satisfy Substrings, LeftToRight, FusedAfterError, Advances.  Every      *)
(* string is emitted with the specified parse for replay.                  *)
(***************************************************************************)
EXTENDS LinkFormat, TLC, IOUtils, Json, CSV

Depth == atoi(IOEnv.DEPTH)
EmitOn == "OUT" \in DOMAIN IOEnv
Alpha == { LT, GT, SEMI, COMMA, QUOTE, BSL, EQ, SP, 97, 233 }

VARIABLE s
Init == s = << >>
Next == Len(s) < Depth /\ \E c \in Alpha : s' = Append(s, c)
Spec == Init /\ [][Next]_s

It == Items(s)
SubstringsOk == Substrings(s, It)
LeftToRightOk == LeftToRight(s, It)
FusedOk == FusedAfterError(It)
AdvancesOk == Advances(s)
\* every yielded value unquotes to a subsequence-preserving text no longer than the raw value
UnquoteShort == \A i \in 1 .. Len(It) : It[i].k = "link" =>
                  \A j \in 1 .. Len(It[i].items) :
                     Len(UnquoteSlice(s, It[i].items[j].val)) <= SliceLen(It[i].items[j].val)

Flat(it) == [i \in 1 .. Len(it) |->
   IF it[i].k = "err" THEN [k |-> "err"]
   ELSE [k |-> "link", t |-> << it[i].target.a, SliceLen(it[i].target) >>,
         attrs |-> [j \in 1 .. Len(it[i].items) |->
            [key |-> << it[i].items[j].key.a, SliceLen(it[i].items[j].key) >>,
             val |-> << it[i].items[j].val.a, SliceLen(it[i].items[j].val) >>,
             unq |-> UnquoteSlice(s, it[i].items[j].val)]]]]

Emit == EmitOn => CSVWrite("%1$s", << ToJson([s |-> s, items |-> Flat(It)]) >>, IOEnv.OUT)
=============================================================================
