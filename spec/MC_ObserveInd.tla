---------------------------- MODULE MC_ObserveInd ----------------------------
(***************************************************************************)
(* Apalache model: IndInvT is inductive, and C14 / C15 hold for one step   *)
(* from ANY state that satisfies it - hence for histories of every length, *)
(* which TLC's breadth-first search to depth 5-7 cannot reach.  Bounds:    *)
(* 3 endpoints, 2 tokens, 3 paths, the limits 0/1/2/255 (and any limit     *)
(* 0..255 in the generated pre-state), at most 3 observers per path in the *)
(* generated pre-state (IndInvT allows no more with 3 endpoints).          *)
(*   apalache-mc check --init=Init    --inv=Inv     --length=0             *)
(*   apalache-mc check --init=IndInit --inv=Inv     --length=1             *)
(*   apalache-mc check --init=IndInit --inv=StepInv --length=1             *)
(***************************************************************************)
EXTENDS ObserveTyped

VARIABLES
  \* @type: $st;
  st,
  \* @type: $call;
  last

NoCall == [op |-> "none", ep |-> "", tok |-> << >>, p |-> "", mid |-> 0, con |-> FALSE, n |-> 0]

Init == st = InitT /\ last = NoCall
\* any state satisfying the invariant (not only a reachable one)
IndInit ==
  /\ st = Gen(3)
  /\ DOMAIN st.seqno = TPaths /\ DOMAIN st.obs = TPaths
  /\ IndInvT(st)
  /\ last = NoCall
Next == \E c \in TCalls : st' = ApplyT(st, c) /\ last' = c

Inv == IndInvT(st)
\* action invariant: the step just taken satisfies C14 / C15
StepInv == StepPropsT(st, last', st')

(* ---- vacuity guards: each of these MUST be reported as violated ------------------------------------ *)
\* the generated pre-states include three observers on one path and the limit 255
SanityState == ~(\E p \in TPaths : Len(st.obs[p]) = 3 /\ st.obs[p][3].unacked = 255 /\ st.limit = 255)
\* some step evicts an observer
SanityStep == \A p \in TPaths : Len(st'.obs[p]) >= Len(st.obs[p])
=============================================================================
