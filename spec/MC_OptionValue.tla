--------------------------- MODULE MC_OptionValue ---------------------------
(***************************************************************************)
(* C06: uint option values (RFC 7252 3.2) at widths 1, 2, 4, 8 and string  *)
(* option values.  Round trip and minimality are checked for every key;    *)
(* complete tables are emitted for replay.                                  *)
(* Environment: DEC3 ("none" | "alpha": all 3-byte strings over a 32-byte  *)
(* alphabet), OUT.                                                          *)
(***************************************************************************)
EXTENDS Bytes, Utf8, TLC, IOUtils, Json, CSV, FiniteSets, SequencesExt

Widths == { 1, 2, 4, 8 }
Bnd == { 0, 1, 127, 128, 255 }

\* 8-byte digits of 2^k, 2^k - 1, 2^k + 1 (k in 0..63) without leaving 32-bit integers
Pow2Digits(k)  == [i \in 1 .. 8 |-> IF i = 8 - (k \div 8) THEN 2 ^ (k % 8) ELSE 0]
Pow2Minus(k)   == [i \in 1 .. 8 |-> IF i > 8 - (k \div 8) THEN 255
                                    ELSE IF i = 8 - (k \div 8) THEN 2 ^ (k % 8) - 1 ELSE 0]
Pow2Plus(k)    == IF k = 0 THEN [i \in 1 .. 8 |-> IF i = 8 THEN 2 ELSE 0]
                  ELSE [i \in 1 .. 8 |-> IF i = 8 - (k \div 8) THEN (IF k < 8 THEN 2 ^ k + 1 ELSE 2 ^ (k % 8))
                                         ELSE IF i = 8 THEN 1 ELSE 0]
Special8 == { Pow2Digits(k) : k \in 0 .. 63 } \cup { Pow2Minus(k) : k \in 0 .. 63 } \cup { Pow2Plus(k) : k \in 0 .. 63 }
Low(d, w) == SubSeq(d, 9 - w, 8)
FitsIn(d, w) == \A i \in 1 .. (8 - w) : d[i] = 0

Alpha32 == { 0, 1, 2, 15, 16, 31, 32, 64, 65, 126, 127, 128, 129, 143, 144, 159, 160, 191, 192, 193, 194, 223,
             224, 225, 236, 237, 238, 239, 240, 243, 244, 255 }
Utf8Leads == { 224, 237, 239, 240, 244, 245, 225, 241 }
Utf8Conts == { 127, 128, 143, 144, 159, 160, 191, 192 }

Keys == { [t |-> "enc1"] }
   \cup { [t |-> "enc2", hi |-> x] : x \in 0 .. 255 }
   \cup { [t |-> "enc4", a |-> x] : x \in Bnd }
   \cup { [t |-> "enc8", a |-> x, b |-> y] : x \in Bnd, y \in Bnd }
   \cup { [t |-> "encS"] }
   \cup { [t |-> "dec", x |-> x] : x \in 0 .. 255 }
   \cup { [t |-> "declong"] }
   \cup (IF IOEnv.DEC3 = "alpha" THEN { [t |-> "dec3", x |-> x, y |-> y] : x \in Alpha32, y \in Alpha32 } ELSE {})
   \cup { [t |-> "str", x |-> x] : x \in 0 .. 255 }
   \cup { [t |-> "str3", x |-> x, y |-> y] : x \in Utf8Leads, y \in Utf8Conts }

VARIABLE key
Init == key = [t |-> "start"]
Grp(k) == CASE "x" \in DOMAIN k -> k.x % 32 [] "hi" \in DOMAIN k -> k.hi % 32 [] OTHER -> 0
Next == \/ key.t = "start" /\ \E g \in 0 .. 31 : key' = [t |-> "grp", g |-> g]
        \/ key.t = "grp" /\ \E k \in Keys : Grp(k) = key.g /\ key' = k
Spec == Init /\ [][Next]_key

EncDigits ==
  CASE key.t = "enc1" -> { << 1, << x >> >> : x \in 0 .. 255 }
    [] key.t = "enc2" -> { << 2, << key.hi, x >> >> : x \in 0 .. 255 }
    [] key.t = "enc4" -> { << 4, << key.a, x, y, z >> >> : x \in Bnd, y \in Bnd, z \in Bnd }
    [] key.t = "enc8" -> { << 8, << key.a, key.b, x, 0, y, 0, 0, z >> >> : x \in Bnd, y \in Bnd, z \in Bnd }
                         \cup { << 8, << key.a, 0, 0, x, key.b, y, 255, z >> >> : x \in Bnd, y \in Bnd, z \in Bnd }
    [] key.t = "encS" -> { << 8, d >> : d \in Special8 }
                         \cup { << 4, Low(d, 4) >> : d \in { e \in Special8 : FitsIn(e, 4) } }
                         \cup { << 2, Low(d, 2) >> : d \in { e \in Special8 : FitsIn(e, 2) } }
    [] OTHER -> {}

DecStrings ==
  CASE key.t = "dec" -> { << key.x, y >> : y \in 0 .. 255 } \cup { << key.x >> } \cup (IF key.x = 0 THEN { << >> } ELSE {})
    [] key.t = "declong" -> { [i \in 1 .. n |-> IF i = n THEN 1 ELSE 0] : n \in 3 .. 10 }
                            \cup { [i \in 1 .. n |-> 255] : n \in 3 .. 10 }
                            \cup { [i \in 1 .. n |-> IF i = 1 THEN 1 ELSE 0] : n \in 3 .. 10 }
    [] key.t = "dec3" -> { << key.x, key.y, z >> : z \in Alpha32 }
    [] OTHER -> {}

StrStrings ==
  CASE key.t = "str" -> { << key.x, y >> : y \in 0 .. 255 } \cup { << key.x >> } \cup (IF key.x = 0 THEN { << >> } ELSE {})
    [] key.t = "str3" -> { << key.x, key.y, z >> : z \in Utf8Conts } \cup { << key.x, key.y, z, u >> : z \in Utf8Conts, u \in Utf8Conts }
                         \cup { << 65, key.x, key.y, z >> : z \in Utf8Conts }
    [] OTHER -> {}

\* the theorems (C06 on the specification)
RoundTrip == \A p \in EncDigits :
  LET w == p[1]  d == p[2]  e == UintEnc(d) IN
  /\ UintDec(e, w) = [ok |-> TRUE, v |-> d]
  /\ (e # << >> => e[1] # 0)                        \* shortest form
  /\ ((\A i \in 1 .. w : d[i] = 0) <=> e = << >>)   \* zero is the empty string
  /\ Len(e) <= w
  /\ ((w <= 2 \/ (d[w - 3] < 128 /\ \A i \in 1 .. (w - 4) : d[i] = 0)) => e = NatBytes(BEVal(d)))
DecodeTotal == \A b \in DecStrings : \A w \in Widths :
  LET r == UintDec(b, w) IN (r.ok <=> Len(b) <= w) /\ (r.ok => Len(r.v) = w /\ StripZeros(r.v) = StripZeros(b))

Rows ==
  SetToSeq({ [t |-> "enc", w |-> p[1], digits |-> p[2], enc |-> UintEnc(p[2])] : p \in EncDigits })
  \o SetToSeq({ [t |-> "dec", w |-> w, b |-> b, ok |-> UintDec(b, w).ok, digits |-> UintDec(b, w).v] : b \in DecStrings, w \in Widths })
  \o SetToSeq({ [t |-> "str", b |-> b, ok |-> WellFormed(b)] : b \in StrStrings })

ChunkSize == 40
Emit == key.t \in {"start", "grp"} \/
  LET r == Rows
      n == Len(r) IN
  n = 0 \/ \A c \in 0 .. ((n - 1) \div ChunkSize) :
     CSVWrite("%1$s", << ToJson([rows |-> SubSeq(r, c * ChunkSize + 1, Min2(n, (c + 1) * ChunkSize))]) >>, IOEnv.OUT)
=============================================================================
