--------------------------- MODULE Trace_Observe ---------------------------
(***************************************************************************)
(* Trace specification for Subject / create_notification (C14, C15).       *)
(* Every recorded call carries the full projected state of the subject     *)
(* (through the cfg(coap_lite_verif) accessors) for all paths the driver   *)
(* uses; it must be one of the states Observe.tla allows after that call,  *)
(* and the C14/C15 step properties are evaluated on every accepted step.   *)
(***************************************************************************)
EXTENDS Observe, Message, TraceLib

VARIABLES l, s, live, bad, done
vars == << l, s, live, bad, done >>

\* the logged projection: a sequence of [p, present, seq, obs]
ProjEq(x, st) ==
  \A i \in 1 .. Len(st) :
     LET r == st[i] IN
     IF r.present THEN Present(x, r.p) /\ x.res[r.p].seq = r.seq /\ ViewSeq(x.res[r.p].obs) = ViewSeq(r.obs)
     ELSE ~Present(x, r.p)

CallOf(e) ==
  CASE e.op = "register"   -> [op |-> "register", ep |-> e.ep, tok |-> e.tok, p |-> e.p]
    [] e.op = "deregister" -> [op |-> "deregister", ep |-> e.ep, tok |-> e.tok, p |-> e.p]
    [] e.op = "changed"    -> [op |-> "changed", p |-> e.p, mid |-> e.mid, con |-> e.con]
    [] e.op = "changed_many" -> [op |-> "changed_many", p |-> e.p, mid |-> e.mid, n |-> e.n]
    [] e.op = "ack"        -> [op |-> "ack", ep |-> e.ep, mid |-> e.mid]
    [] e.op = "limit"      -> [op |-> "limit", n |-> e.n]

\* RFC 7641 3.2/4.2: a notification is a 2.05 response with the registered token and
\* the Observe option holding the sequence number as a uint
Notification(e) ==
  [ver |-> 1, typ |-> IF e.con THEN 0 ELSE 1, code |-> 69, mid |-> e.mid, tok |-> e.tok,
   opts |-> << << 6, << UintEnc(e.seq) >> >> >>, pay |-> e.pay]

JudgeNotify(e) ==
  IF e.panicked THEN {"C15"}
  ELSE IF MsgOf(e.st) = Notification(e) /\ e.enc.k = "ok" /\ e.enc.bytes = Encode(Notification(e))
          /\ e.seqback.some /\ e.seqback.ok /\ e.seqback.digits = e.seq
       THEN {} ELSE {"C15"}

\* which property a rejected step belongs to
Blame(e) == IF e.op \in {"changed", "changed_many"} /\ e.panicked THEN {"C15"}
            ELSE IF e.op = "changed_many" THEN {"C15"}
            ELSE IF e.op \in {"register", "deregister"} THEN {"C14"}
            ELSE IF e.op \in {"ack", "limit"} THEN {"C15"}
            ELSE {"C14", "C15"}

Init == l = 1 /\ s = InitSubject /\ live = FALSE /\ bad = << >> /\ done = FALSE

Step ==
  /\ l <= NRec /\ l' = l + 1 /\ UNCHANGED done
  /\ LET e == Rec[l] IN
     IF e.op = "reset" THEN s' = InitSubject /\ live' = TRUE /\ UNCHANGED bad
     ELSE IF e.op = "notify" THEN
          /\ bad' = IF JudgeNotify(e) = {} THEN bad ELSE AddBad(bad, BadEntry(l, JudgeNotify(e), "notification builder"))
          /\ UNCHANGED << s, live >>
     ELSE IF ~live THEN UNCHANGED << s, live, bad >>
     ELSE LET c == CallOf(e)
              ok == { x \in ObsAllowed(s, c) : ProjEq(x, e.st) } IN
          IF e.panicked \/ ok = {}
          THEN /\ bad' = AddBad(bad, BadEntry(l, Blame(e), IF e.panicked THEN "panic" ELSE "state after the call is not allowed by Observe.tla"))
               /\ live' = FALSE /\ UNCHANGED s
          ELSE LET x == CHOOSE x \in ok : TRUE IN
               /\ s' = x /\ UNCHANGED live
               /\ bad' = IF OneObserverPerEndpoint(x) /\ (c.op = "changed_many" \/ x # ObsApply(s, c) \/ StepProps(s, c, x)) THEN bad
                         ELSE AddBad(bad, BadEntry(l, Blame(e), "step property"))

Finish == l = NRec + 1 /\ ~done /\ done' = TRUE /\ UNCHANGED << l, s, live, bad >>
          /\ WriteResult(bad, [episodes |-> Cardinality({i \in 1 .. NRec : Rec[i].op \in {"reset", "notify"}}), drift |-> 0])

Next == Step \/ Finish
Spec == Init /\ [][Next]_vars

Inv == OneObserverPerEndpoint(s)
=============================================================================
