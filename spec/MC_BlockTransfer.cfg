SPECIFICATION Spec
VIEW View
INVARIANT NoViolation
INVARIANT Reassembled
INVARIANT AppOnce
INVARIANT Delivered
INVARIANT NeverFails
PROPERTY Completes
ACTION_CONSTRAINT Emit
CHECK_DEADLOCK FALSE
