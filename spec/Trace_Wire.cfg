SPECIFICATION Spec
INVARIANT SortedInv
POSTCONDITION Consumed
CHECK_DEADLOCK FALSE
