SPECIFICATION Spec
VIEW View
INVARIANT NoViolation
INVARIANT SubjectInv
ACTION_CONSTRAINT Emit
CHECK_DEADLOCK FALSE
