----------------------------- MODULE BlockValue -----------------------------
(***************************************************************************)
(* RFC 7959 section 2.2: the Block1/Block2 option value                    *)
(*   uint( NUM << 4 | M << 3 | SZX ), 0-3 bytes, block size 2^(SZX+4).     *)
(* The crate's type holds NUM in 16 bits, SZX in 0..7.                     *)
(***************************************************************************)
EXTENDS Bytes

MaxNum == 65535
SizeOf(szx) == 2 ^ (szx + 4)

BvScalar(bv) == bv.num * 16 + (IF bv.more THEN 8 ELSE 0) + bv.szx
BvEnc(bv) == NatBytes(BvScalar(bv))


BvDec(b) ==
  IF Len(b) > 3 THEN None
  ELSE LET s == BEVal(b) IN
       IF s \div 16 > MaxNum THEN None
       ELSE Some([num |-> s \div 16, more |-> (s \div 8) % 2 = 1, szx |-> s % 8])

\* floor(log2(size)) - 4, at least 0 (size in 1 .. 4095)
SzxFloor(size) == LET e == CHOOSE k \in 0 .. 11 : 2 ^ k <= size /\ size < 2 ^ (k + 1)
                  IN IF e <= 4 THEN 0 ELSE e - 4

\* BlockValue::new(num, more, size); num and size are [big |-> BOOLEAN, v |-> Nat]
\* where big means "at least 2^31" (outside TLC's integers)
BvNew(num, more, size) ==
  IF size.big \/ num.big THEN None
  ELSE IF size.v = 0 \/ size.v >= 4096 \/ num.v > MaxNum THEN None
  ELSE Some([num |-> num.v, more |-> more, szx |-> SzxFloor(size.v)])

Small(n) == [big |-> FALSE, v |-> n]
=============================================================================
