SPECIFICATION Spec
VIEW View
CONSTRAINT Bound
INVARIANT Inv
INVARIANT TypedInv
ACTION_CONSTRAINT Agree
CHECK_DEADLOCK FALSE
